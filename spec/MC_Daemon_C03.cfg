SPECIFICATION DSpec
CONSTANTS
  Fans <- F1
  Kind <- KindHw
  HasMode <- AllTrue
  HasRpm <- AllTrue
  CfgMap <- AllFalse
  CfgMinMax <- AllFalse
  Parallel = TRUE
  MaxSignals = 3
  Outcomes <- OutAll
  Outcomes3 <- OutOk
  OrigModes <- Modes4
  OrigPwms <- Pwms3
  MaxFaults = 1
  MaxStarts = 1
  SkipInitWhenMinMax = FALSE
CHECK_DEADLOCK FALSE
INVARIANTS
  C03_HandBackOrFull
  C03_AtExit
  C09_NoCrash
  C09_ContinueOrHandBack
PROPERTIES
  C03_OnlyThroughRestore
  C03_SignalsAbsorbed
