SPECIFICATION Spec
CHECK_DEADLOCK FALSE
INVARIANTS
  Report
  C13_ConfiguredWins
  C13_Conforms
  C13_Derived
  C13_Refuses
POSTCONDITION TraceAccepted
