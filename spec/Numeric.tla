------------------------------- MODULE Numeric -------------------------------
(* Integer arithmetic exactly as the Go code performs it.                      *)
(* TLC integers are 32 bit: every product below stays under 2^31 for PWM-scale *)
(* operands (0..255, differences up to 255, curve values up to +-10^6).        *)
EXTENDS Integers

P == 255                                  \* fans.MaxPwmValue

Abs(x) == IF x < 0 THEN -x ELSE x
Min2(a, b) == IF a <= b THEN a ELSE b
Max2(a, b) == IF a >= b THEN a ELSE b

\* util.Coerce on integers / the controller's clamp to 0..255
Clamp(x, lo, hi) == IF x > hi THEN hi ELSE IF x < lo THEN lo ELSE x

\* Go's int(float) conversion truncates toward zero; b > 0
TruncDiv(a, b) == IF a >= 0 THEN a \div b ELSE -((-a) \div b)

\* math.Round on the rational num/den (den > 0): half away from zero
RoundHalfAway(num, den) ==
  IF num >= 0 THEN (2 * num + den) \div (2 * den)
              ELSE -((2 * (-num) + den) \div (2 * den))
\* is num/den exactly halfway between two integers? (float rounding may go either way)
IsTie(num, den) == (2 * Abs(num)) % (2 * den) = den

\* controller.go: target = minPwm + int((float64(target)/255)*(float64(maxPwm)-float64(minPwm)))
Rescale(t, mn, mx) == mn + TruncDiv(t * (mx - mn), P)

\* The float64 evaluation of the expression above equals the exact truncated quotient
\* except at some points where t*(mx-mn) is an exact positive multiple of 255 and the
\* float product lands one ulp below the integer (measured over all 2^24 triples:
\* 3018 points, always exact-1).  Trace validation accepts either value at such points.
RescaleSet(t, mn, mx) ==
  LET e == Rescale(t, mn, mx)
  IN  IF (t * (mx - mn)) % P = 0 /\ t * (mx - mn) > 0 THEN {e, e - 1} ELSE {e}

GCD(a, b) ==
  LET RECURSIVE G(_, _)
      G(x, y) == IF y = 0 THEN x ELSE G(y, x % y)
  IN  G(Abs(a), Abs(b))
==============================================================================
