SPECIFICATION Spec
CHECK_DEADLOCK FALSE
INVARIANTS
  Emit
  C20_SensorsProtected
  C20_CurveValueProtected
  C20_RegistryProtected
