----------------------------------- MODULE Sync ----------------------------------
(* The locking discipline of fan2go's concurrent activities, as read from the code.      *)
(* Each ACCESS is a record                                                               *)
(*    [var, act, site, mode, locks]                                                      *)
(*  var   the shared variable class                                                      *)
(*  act   the activity (goroutine kind) that performs it                                 *)
(*  site  the code-site class under which the Go race detector reports it (innermost     *)
(*        fan2go frame, see bin/props/c20.py)                                            *)
(*  mode  "R" | "W"      locks: set of mutexes held                                      *)
(* Two accesses may race iff they touch the same variable, come from activities that can *)
(* run at the same time, at least one writes, and they hold no common lock.              *)
(* MayRacePairs is the set of unordered pairs of site classes for which this model       *)
(* admits a race: a race report outside this set contradicts the discipline the code     *)
(* claims (a mutex was removed, a new unguarded access was added).                       *)
EXTENDS FiniteSets, TLC

\* activities; instances of the same activity for different fans / sensors run concurrently too
Acts == {"SensorMonitor", "RpmMonitor", "ControlLoop", "ApiRequest", "MetricsScrape"}

\* may two instances of the same activity touch the SAME object of this variable class?
\* (two control loops share a curve and a sensor, not a fan or a controller)
SharedAcrossInstances == {"sensorAvg", "curveValue", "pidLoopState", "registry"}

A(v, a, s, m, l) == [var |-> v, act |-> a, site |-> s, mode |-> m, locks |-> l]

Accesses == {
  \* sensor moving average: sensor.mu everywhere except the reflection-based API snapshot
  A("sensorAvg", "SensorMonitor", "Sensor.avg", "W", {"sensor.mu"}),
  A("sensorAvg", "SensorMonitor", "Sensor.avg", "R", {"sensor.mu"}),
  A("sensorAvg", "ControlLoop", "Sensor.avg", "R", {"sensor.mu"}),      \* linear curve evaluation
  A("sensorAvg", "ApiRequest", "Api", "R", {}),                           \* JSON / deep copy of the live object
  \* curve value: valueMu for SetValue / CurrentValue; the API reads the struct without it
  A("curveValue", "ControlLoop", "Curve.value", "W", {"valueMu"}),
  A("curveValue", "MetricsScrape", "Curve.value", "R", {"valueMu"}),
  A("curveValue", "ApiRequest", "Api", "R", {}),
  \* PID loop state of a PID curve (no lock): raced by two control loops that share the curve
  A("pidLoopState", "ControlLoop", "PidLoop", "W", {}),
  A("pidLoopState", "ApiRequest", "Api", "R", {}),
  \* state of a fan's own control loop (PID / direct): no lock - and none needed, it belongs to one controller and is
  \* touched by that controller's control-loop goroutine only (NOT shared across instances: a report here means two
  \* controllers were given the same loop object)
  A("ctlLoopState", "ControlLoop", "CtlLoop", "W", {}),
  \* fan object fields (Rpm, Pwm, RpmMovingAvg, limits, curve data pointer): no lock at all
  A("fanFields", "RpmMonitor", "Fan", "W", {}),
  A("fanFields", "ControlLoop", "Fan", "W", {}),
  A("fanFields", "ControlLoop", "Controller", "W", {}),                   \* Run attaches curve data
  A("fanFields", "MetricsScrape", "Fan", "W", {}),                        \* GetPwm / GetRpm store what they read
  A("fanFields", "ApiRequest", "Api", "R", {}),
  \* the fan's PWM->RPM map: written at every RPM poll, iterated by the API (runtime abort)
  A("fanCurveMap", "RpmMonitor", "Fan", "W", {}),
  A("fanCurveMap", "ApiRequest", "Api", "R", {}),
  \* controller statistics / last set pwm
  A("controllerState", "ControlLoop", "Controller", "W", {}),
  A("controllerState", "MetricsScrape", "Controller", "R", {}),
  \* registries are concurrent maps
  A("registry", "ApiRequest", "Registry", "R", {"cmap"}),
  A("registry", "ControlLoop", "Registry", "R", {"cmap"})
}

Concurrent(a1, a2, v) == a1 # a2 \/ v \in SharedAcrossInstances \/ a1 = "ApiRequest"

Conflict(x, y) ==
  /\ x.var = y.var
  /\ Concurrent(x.act, y.act, x.var)
  /\ "W" \in {x.mode, y.mode}
  /\ x.locks \cap y.locks = {}

MayRacePairs == UNION { { {x.site, y.site} : y \in { z \in Accesses : Conflict(x, z) } } : x \in Accesses }

\* pairs the discipline protects: same variable, conflicting modes, but a common lock
ProtectedPairs == (UNION { { {x.site, y.site} : y \in { z \in Accesses :
                      z.var = x.var /\ "W" \in {x.mode, z.mode} /\ x.locks \cap z.locks # {} } } : x \in Accesses }) \ MayRacePairs
==============================================================================
