SPECIFICATION Spec
CONSTANTS
  BugD6 = FALSE
  BugD7 = FALSE
  Depth = 6
  Wide = FALSE
CHECK_DEADLOCK FALSE
INVARIANTS
  C08_Hull
  C08_NeverPoisoned
PROPERTIES
  C08_Contraction
  C08_FaultIsNoOp
