-------------------------------- MODULE MC_Persist -------------------------------
EXTENDS Persist, TLC
CONSTANT Depth
VARIABLE d
mv == <<pvars, d>>
Init == PInit /\ d = 0
Next == d < Depth /\ d' = d + 1 /\ PNext
Spec == Init /\ [][Next]_mv
\* non-vacuity
NV_NoDiscard == pout.op = "load" => pout.res # "discarded"
==============================================================================
