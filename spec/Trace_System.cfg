SPECIFICATION TSpec
CHECK_DEADLOCK FALSE
INVARIANTS
  Report
  C06_SystemEval
PROPERTIES
  C07_EndToEndObs
POSTCONDITION TraceAccepted
