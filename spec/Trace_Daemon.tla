------------------------------ MODULE Trace_Daemon ------------------------------
(* Conformance of executions recorded from the REAL controller.Run (the same traces that       *)
(* Monitor_Daemon judges) with Daemon.tla: is the observed sequence of hook events a behaviour   *)
(* of the specification?  Every event that corresponds to a spec action must be explained by    *)
(* that action (with the logged values bound); actions without a hook (Load when data exists,   *)
(* the PWM-map step when nothing is swept, the mutex steps of the map computation) are silent   *)
(* steps that TLC may insert; events without a spec action (RPM polls, CycleBegin, plain        *)
(* register writes, ...) are consumed without a step.  TLC searches the (small) space of        *)
(* placements of silent steps; the high-water mark of consumed lines is kept in TLCSet(1).       *)
(* A trace is accepted iff some path consumes all its lines.  One trace (one process life,       *)
(* possibly with restarts) per TLC run: $VERIF_TRACE.                                           *)
EXTENDS DaemonProps, Json, IOUtils, TLCExt

VARIABLES l

tvars == <<dvars, l>>

TraceLog == ndJsonDeserialize(IOEnv.VERIF_TRACE)
N == Len(TraceLog)

FanIds(fs) == {fs[i].id : i \in 1..Len(fs)}
FanOf(fs, id) == fs[CHOOSE i \in 1..Len(fs) : fs[i].id = id]
ConfOf(e) ==
  [fans |-> FanIds(e.fans),
   kind |-> [f \in FanIds(e.fans) |-> FanOf(e.fans, f).kind],
   hasMode |-> [f \in FanIds(e.fans) |-> FanOf(e.fans, f).hasMode],
   hasRpm |-> [f \in FanIds(e.fans) |-> FanOf(e.fans, f).hasRpm],
   cfgMap |-> [f \in FanIds(e.fans) |-> FanOf(e.fans, f).cfgMap],
   cfgMinMax |-> [f \in FanIds(e.fans) |-> FanOf(e.fans, f).cfgMinMax],
   hasPwm |-> [f \in FanIds(e.fans) |-> IF "hasPwm" \in DOMAIN FanOf(e.fans, f) THEN FanOf(e.fans, f).hasPwm ELSE TRUE],
   parallel |-> e.parallel]

\* the first line is the process start: configuration, registers and database as observed
TInit ==
  /\ TraceLog[1].ev = "Begin" /\ l = 2
  /\ LET e == TraceLog[1]
         c == ConfOf(e) IN
     /\ cf = c
     /\ ph = [f \in c.fans |-> "Off"]
     /\ pwm = [f \in c.fans |-> FanOf(e.fans, f).pwm]
     /\ mode = [f \in c.fans |-> FanOf(e.fans, f).mode]
     /\ orig = [f \in c.fans |-> [pwm |-> -1, mode |-> -1]]
     /\ reg = [f \in c.fans |-> FALSE]
     /\ mtx = "none" /\ ctx = "live" /\ proc = "run" /\ sigs = 0
     /\ db = [f \in c.fans |-> [data |-> FanOf(e.fans, f).hadData, map |-> FanOf(e.fans, f).hadMap]]
     /\ cnt = [f \in c.fans |-> [sweeps |-> 0, meas |-> 0]]
     /\ ana = [f \in c.fans |-> FALSE]
     /\ faults = 0 /\ starts = 1
     /\ discarded = [f \in c.fans |-> FALSE]
     /\ had = [f \in c.fans |-> [data |-> FanOf(e.fans, f).hadData, map |-> FanOf(e.fans, f).hadMap \/ c.cfgMap[f]]]

\* a later "Begin" in the same file: a new process start (or a new trace), everything is re-bound
ResetStep(e) ==
  LET c == ConfOf(e) IN
  /\ cf' = c
  /\ ph' = [f \in c.fans |-> "Off"]
  /\ pwm' = [f \in c.fans |-> FanOf(e.fans, f).pwm]
  /\ mode' = [f \in c.fans |-> FanOf(e.fans, f).mode]
  /\ orig' = [f \in c.fans |-> [pwm |-> -1, mode |-> -1]]
  /\ reg' = [f \in c.fans |-> FALSE]
  /\ mtx' = "none" /\ ctx' = "live" /\ proc' = "run" /\ sigs' = 0
  /\ db' = [f \in c.fans |-> [data |-> FanOf(e.fans, f).hadData, map |-> FanOf(e.fans, f).hadMap]]
  /\ cnt' = [f \in c.fans |-> [sweeps |-> 0, meas |-> 0]]
  /\ ana' = [f \in c.fans |-> FALSE]
  /\ faults' = 0 /\ starts' = 1
  /\ discarded' = [f \in c.fans |-> FALSE]
  /\ had' = [f \in c.fans |-> [data |-> FanOf(e.fans, f).hadData, map |-> FanOf(e.fans, f).hadMap \/ c.cfgMap[f]]]
  \* conformance of the persistence effects of the previous run: what the model says is stored is what is found
  /\ (~e.newTrace => \A f \in c.fans \cap cf.fans : db[f].data = FanOf(e.fans, f).hadData /\ (db[f].map = FanOf(e.fans, f).hadMap \/ cf.cfgMap[f]))

Consume == l' = l + 1
Stay == l' = l
Skip == UNCHANGED dvars

\* current value of the register that a spec action sets "to some value": taken from the trace
\* (the next CycleEnd / RestoreEnd / Final event binds it; in between the model keeps its own)
Ev == TraceLog[l]

\* events that correspond to no action of Daemon.tla
Ignored == {"RunStart", "CycleBegin", "RpmBegin", "RpmEnd", "Fault", "Inject", "Poke3", "RunReturn", "RestoreEnd"}

\* ---- one consumed event = one spec action --------------------------------------
Step(e) ==
  CASE e.ev = "Captured" ->
         /\ Capture(e.fan)
         /\ orig'[e.fan].pwm = e.a[1]                           \* what the code captured is what the model captured
         /\ (cf.hasMode[e.fan] => orig'[e.fan].mode = e.a[2])
    [] e.ev = "WaitEnd" -> WaitDone(e.fan)
    [] e.ev = "AnalysisBegin" -> Load(e.fan) /\ ph'[e.fan] = "AnaWait"
    [] e.ev = "AnalysisStart" -> AnaLock(e.fan)
    [] e.ev = "SweepBegin" ->
         IF ph[e.fan] = "Ana" THEN AnaMap(e.fan) /\ ph'[e.fan] = "Sweep"
         ELSE MapLock(e.fan) /\ ana'[e.fan]
    [] e.ev = "SweepEnd" ->
         IF ph[e.fan] = "Sweep" THEN \E p \in 0..255 : SweepEnd(e.fan, p)
         ELSE ph[e.fan] = "MapRun" /\ Skip
    [] e.ev = "MeasureBegin" -> MeasBegin(e.fan)
    [] e.ev = "AnalysisEnd" -> MeasEnd(e.fan, pwm[e.fan]) \/ MeasFail(e.fan)
    [] e.ev = "Attached" -> Attached(e.fan)
    [] e.ev = "LoopStarted" -> LoopStart(e.fan)
    [] e.ev = "CycleEnd" ->
         IF e.a[2] = 1 THEN ControlError(e.fan)
         ELSE IF e.a[3] = 1 THEN CycleWriteFault(e.fan) \/ Cycle(e.fan, e.pwm)
         ELSE Cycle(e.fan, e.pwm)
    [] e.ev = "RestoreBegin" ->
         IF ph[e.fan] = "Reg" THEN Cancelled(e.fan) ELSE ph[e.fan] = "Rest1" /\ Skip
    [] e.ev = "W" ->
         IF e.rstep = 1 THEN Restore1(e.fan, e.o)
         ELSE IF e.rstep = 2 THEN Restore2(e.fan, e.o)
         ELSE IF e.rstep = 3 THEN Restore3(e.fan, e.o)
         ELSE \* a register write outside the restore sequence: the model's register follows
              /\ pwm' = IF e.reg = "pwm" /\ e.o = "ok" THEN [pwm EXCEPT ![e.fan] = e.eff] ELSE pwm
              /\ mode' = IF e.reg = "mode" /\ e.o = "ok" THEN [mode EXCEPT ![e.fan] = e.eff] ELSE mode
              /\ UNCHANGED <<cf, ph, orig, reg, mtx, ctx, proc, sigs, db, cnt, ana, faults, starts, discarded, had>>
    [] e.ev = "Cancel" -> IF ctx = "live" \/ sigs < MaxSignals THEN Signal ELSE Skip
    [] e.ev = "Final" ->
         \* the registers the model ends with are the registers observed
         /\ \A f \in cf.fans : ph[f] \in {"Done", "Failed"} => pwm[f] = FanOf(e.regs, f).pwm /\ mode[f] = FanOf(e.regs, f).mode
         /\ IF ctx = "cancelled" /\ \A f \in cf.fans : ph[f] \in {"Done", "Failed"} THEN Exit ELSE Skip
    [] e.ev \in {"CliReset", "CliInit"} ->
         /\ db' = [db EXCEPT ![e.fan] = [data |-> e.hasData, map |-> e.hasMap]]
         /\ UNCHANGED <<cf, ph, pwm, mode, orig, reg, mtx, ctx, proc, sigs, cnt, ana, faults, starts, discarded, had>>
    [] e.ev \in Ignored -> Skip
    [] OTHER -> FALSE

\* ---- silent steps: actions of the specification that have no hook --------------
Silent ==
  \E f \in cf.fans :
     \/ Load(f) /\ ph'[f] = "Map"                       \* data already stored (or default data saved): no analysis
     \/ ph[f] = "Ana" /\ ~MustSweep(f) /\ AnaMap(f)      \* configured / stored map: nothing is swept
     \/ ph[f] = "Map" /\ ~MustSweep(f) /\ MapLock(f)     \* map computation without a sweep
     \/ MapDone(f, pwm[f])                               \* computePwmMap returns and releases the mutex

TNext ==
  \/ l <= N /\ Ev.ev = "Begin" /\ Consume /\ ResetStep(Ev)
  \/ l <= N /\ Ev.ev # "Begin" /\ Consume /\ Step(Ev) /\ cf' = cf
  \/ l <= N /\ Stay /\ Silent /\ cf' = cf

TSpec == TInit /\ [][TNext]_tvars

\* high-water mark of consumed lines (needs -workers 1)
ASSUME TLCSet(1, 0)
Mark == TLCSet(1, IF TLCGet(1) < l THEN l ELSE TLCGet(1))
Accepted == PrintT(<<"CONFORMANCE", N, "consumed", TLCGet(1) - 1>>) /\ TLCGet(1) = N + 1
==============================================================================
