---------------------------------- MODULE Config ---------------------------------
(* Abstract fan2go configurations and the validator (internal/configuration/           *)
(* validation.go) as implemented.                                                       *)
(*   sensors: sequence of [id, nb]                nb = number of backends given (0,1,2)  *)
(*   curves:  sequence of [id, nb, kind, sensor, fn, members, steps]                     *)
(*            kind "linear" | "pid" | "function" | "" (nb # 1); sensor = referenced id;  *)
(*            fn = function type; members = sequence of curve ids; steps = number of     *)
(*            steps (-1: min/max form)                                                   *)
(*   fans:    sequence of [id, nb, curve, algOk, hwOk]                                   *)
(*            algOk: the controlAlgorithm value is one the validator accepts;            *)
(*            hwOk: a hwmon entry has exactly one of index / rpmChannel (TRUE otherwise) *)
EXTENDS Integers, Sequences, FiniteSets

FnTypesOk == {"sum", "difference", "delta", "average", "minimum", "maximum"}

Ids(s) == {s[i].id : i \in 1..Len(s)}
Unique(s) == \A i, j \in 1..Len(s) : i # j => s[i].id # s[j].id
SeqToSet(s) == {s[i] : i \in 1..Len(s)}

\* ---- the curve graph ----
Succ(c, id) == UNION { SeqToSet(c.curves[i].members) : i \in {j \in 1..Len(c.curves) : c.curves[j].id = id /\ c.curves[j].kind = "function"} }
RECURSIVE ReachN(_, _, _)
ReachN(c, S, n) == IF n = 0 THEN S ELSE ReachN(c, S \cup UNION {Succ(c, x) : x \in S}, n - 1)
\* ids reachable from id in one or more steps
Reach(c, id) == ReachN(c, Succ(c, id), Len(c.curves))
Acyclic(c) == \A i \in 1..Len(c.curves) : c.curves[i].id \notin Reach(c, c.curves[i].id)

\* ---- the property's notion of a well-formed configuration ----
WellFormed(c) ==
  /\ Unique(c.sensors) /\ Unique(c.curves) /\ Unique(c.fans)
  /\ \A i \in 1..Len(c.sensors) : c.sensors[i].nb = 1
  /\ \A i \in 1..Len(c.curves) : c.curves[i].nb = 1
  /\ \A i \in 1..Len(c.fans) : c.fans[i].nb = 1
  /\ \A i \in 1..Len(c.curves) :
       /\ (c.curves[i].kind \in {"linear", "pid"} => c.curves[i].sensor \in Ids(c.sensors))
       /\ (c.curves[i].kind = "function" => SeqToSet(c.curves[i].members) \subseteq Ids(c.curves))
  /\ \A i \in 1..Len(c.fans) : c.fans[i].curve \in Ids(c.curves)
  /\ Acyclic(c)

\* evaluation needs: every function has the members its aggregate indexes, step lists are not empty
Evaluable(c) ==
  \A i \in 1..Len(c.curves) :
     /\ (c.curves[i].kind = "function" => Len(c.curves[i].members) >= 1 /\ c.curves[i].fn \in FnTypesOk)
     /\ (c.curves[i].kind = "linear" => c.curves[i].steps # 0)

\* ---- the validator as implemented (first error wins; only acceptance matters here) ----
CurveOk(c, i) ==
  LET cu == c.curves[i] IN
  /\ \A j \in 1..(i - 1) : c.curves[j].id # cu.id
  /\ cu.nb = 1
  /\ (cu.kind = "function" =>
        /\ cu.fn \in FnTypesOk
        /\ Len(cu.members) >= 1
        /\ \A k \in 1..Len(cu.members) : cu.members[k] # cu.id /\ cu.members[k] \in Ids(c.curves))
  /\ (cu.kind \in {"linear", "pid"} => cu.sensor # "" /\ cu.sensor \in Ids(c.sensors))
  /\ (cu.kind = "linear" => cu.steps # 0)
  /\ (cu.kind = "pid" => cu.pidOk)
\* tarjan: a strongly connected component with more than one node is a cycle (self loops are
\* rejected by the member check above)
NoLoops(c) == \A i, j \in 1..Len(c.curves) :
                 i # j => ~(c.curves[j].id \in Reach(c, c.curves[i].id) /\ c.curves[i].id \in Reach(c, c.curves[j].id))
Validate(c) ==
  /\ Unique(c.sensors) /\ \A i \in 1..Len(c.sensors) : c.sensors[i].nb = 1 /\ c.sensors[i].hwOk
  /\ \A i \in 1..Len(c.curves) : CurveOk(c, i)
  /\ NoLoops(c)
  /\ Unique(c.fans)
  /\ \A i \in 1..Len(c.fans) :
       /\ c.fans[i].nb = 1 /\ c.fans[i].curve # "" /\ c.fans[i].curve \in Ids(c.curves)
       /\ c.fans[i].algOk /\ c.fans[i].hwOk

\* ---- configurations assembled only from documented forms ----
Documented(c) == WellFormed(c) /\ Evaluable(c) /\ c.documented
==============================================================================
