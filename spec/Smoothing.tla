-------------------------------- MODULE Smoothing -------------------------------
(* Sensor smoothing: the sensor monitor's poll (internal/monitor.go updateSensor,     *)
(* util.UpdateSimpleMovingAvg) in exact rational arithmetic:                          *)
(*      avg' = avg + (x - avg) / n          (n = tempRollingWindowSize)               *)
(* A poll whose read fails or yields a non-finite number leaves the average alone.    *)
(* Behaviour switches keep the pre-fix behaviour available as mutant actions:         *)
(*   BugD6: the file sensor turns a read error into the reading 0                     *)
(*   BugD7: a non-finite reading is accepted and poisons the average for good         *)
EXTENDS Integers, Numeric

CONSTANTS BugD6, BugD7

VARIABLES n,      \* window size
          kind,   \* "hwmon" | "file" | "cmd"
          avg,    \* rational [num, den]; den = 0 stands for NaN (poisoned)
          lo, hi, \* smallest / largest of the initial value and all readings so far
          sout    \* observation of the last action

svars == <<n, kind, avg, lo, hi, sout>>

Rat(a, b) == [num |-> a, den |-> b]
Norm(a, b) == LET g == GCD(a, b) IN IF g = 0 THEN Rat(0, 1) ELSE Rat(a \div g, b \div g)
NaNVal == Rat(0, 0)
IsNaN == avg.den = 0

SInit(k, w, a0) == /\ n = w /\ kind = k /\ avg = Rat(a0, 1) /\ lo = a0 /\ hi = a0 /\ sout = [ev |-> "init"]

Step(a, x) == Norm(a.num * (n - 1) + x * a.den, a.den * n)

\* a successful read of the finite value x
Poll(x) ==
  /\ avg' = IF IsNaN THEN avg ELSE Step(avg, x)
  /\ lo' = Min2(lo, x) /\ hi' = Max2(hi, x)
  /\ sout' = [ev |-> "poll", x |-> x]
  /\ UNCHANGED <<n, kind>>

\* the read fails: unreadable / empty / non-numeric file, failing / garbage-printing / timed-out command
PollFail ==
  /\ IF BugD6 /\ kind = "file" /\ ~IsNaN
       THEN avg' = Step(avg, 0)          \* pre-fix: error swallowed, reading 0 used
       ELSE avg' = avg
  /\ sout' = [ev |-> "fail"]
  /\ UNCHANGED <<n, kind, lo, hi>>

\* the read yields NaN or +-Inf (only a command can print that)
PollNonFinite ==
  /\ kind = "cmd"
  /\ avg' = IF BugD7 THEN NaNVal ELSE avg
  /\ sout' = [ev |-> "nonfinite"]
  /\ UNCHANGED <<n, kind, lo, hi>>

\* ---- C08 ----
Leq(a, x) == a.num <= x * a.den            \* a <= x for rational a (den > 0), integer x
Geq(a, x) == a.num >= x * a.den
C08_Hull == ~IsNaN => Geq(avg, lo) /\ Leq(avg, hi)
C08_NeverPoisoned == ~IsNaN
\* distance to the reading shrinks at least by the factor (n-1)/n per successful poll
AbsDiffNum(a, x) == Abs(a.num - x * a.den)  \* |a - x| * a.den
C08_Contraction ==
  [][sout'.ev = "poll" /\ ~IsNaN /\ avg'.den # 0 =>
        \* n * |x - avg'| <= (n-1) * |x - avg|, cross-multiplied
        n * AbsDiffNum(avg', sout'.x) * avg.den <= (n - 1) * AbsDiffNum(avg, sout'.x) * avg'.den]_svars
C08_FaultIsNoOp == [][sout'.ev \in {"fail", "nonfinite"} => avg' = avg]_svars
==============================================================================
