----------------------------- MODULE Trace_Smoothing ----------------------------
(* Executions of the REAL sensor poll (internal.updateSensor through the verif hook,   *)
(* real HwmonSensor / FileSensor / CmdSensor) validated against Smoothing.tla.         *)
(* The average is observed as am = floor(avg * 1000) (units: 1/1000 of the sensor's     *)
(* unit), readings as the pair xlo = floor(x*1000), xhi = ceil(x*1000); the formulas    *)
(* of Smoothing are evaluated with the slack that this projection needs (+-2 units).    *)
EXTENDS Smoothing, Json, TLC, IOUtils, Sequences

VARIABLES l, am, fin, drift
tvars == <<svars, l, am, fin, drift>>

Trace == ndJsonDeserialize(IOEnv.VERIF_TRACE)
N == Len(Trace)

TInit == /\ Trace[1].ev = "Init" /\ l = 2 /\ drift = <<>>
         /\ n = Trace[1].n /\ kind = Trace[1].kind
         /\ am = Trace[1].am /\ fin = TRUE
         /\ avg = Norm(Trace[1].am, 1000)
         /\ lo = Trace[1].am /\ hi = Trace[1].am     \* hull bounds in 1/1000 units
         /\ sout = [ev |-> "init"]

Note(ok) == IF ok \/ Len(drift) >= 5 THEN drift ELSE Append(drift, l)

StepInit(e) ==
  /\ n' = e.n /\ kind' = e.kind /\ am' = e.am /\ fin' = TRUE /\ avg' = Norm(e.am, 1000)
  /\ lo' = e.am /\ hi' = e.am /\ sout' = [ev |-> "init"] /\ drift' = drift

\* a poll: e.fault = "" for a successful finite read
StepPoll(e) ==
  /\ am' = e.am /\ fin' = e.fin
  /\ avg' = IF e.fin THEN Norm(e.am, 1000) ELSE NaNVal
  /\ lo' = IF e.fault = "" THEN Min2(lo, e.xlo) ELSE lo
  /\ hi' = IF e.fault = "" THEN Max2(hi, e.xhi) ELSE hi
  /\ sout' = IF e.fault = "" THEN [ev |-> "poll", x |-> e.xlo]
             ELSE IF e.fault \in {"nan", "inf", "-inf"} THEN [ev |-> "nonfinite"] ELSE [ev |-> "fail"]
  /\ UNCHANGED <<n, kind>>
  \* conformance with Smoothing!Poll / PollFail / PollNonFinite on the projection
  /\ drift' = Note(IF e.fault = ""
                     THEN /\ ~e.err /\ e.fin
                          /\ e.am >= am + TruncDiv(e.xlo - am, n) - 2
                          /\ e.am <= am + TruncDiv(e.xhi - am, n) + 2
                     ELSE e.err /\ e.am = am /\ e.fin = fin)

TNext == /\ l <= N /\ l' = l + 1
         /\ LET e == Trace[l] IN IF e.ev = "Init" THEN StepInit(e) ELSE StepPoll(e)
TSpec == TInit /\ [][TNext]_tvars

\* ---- C08 on the observed behaviour ----
NewTrace == sout'.ev = "init"
C08_HullObs == fin => am >= lo - 2 /\ am <= hi + 2
C08_NeverPoisonedObs == fin
C08_ContractionObs ==
  [][NewTrace \/ (sout'.ev = "poll" /\ fin /\ fin' /\ Trace[l].xlo = Trace[l].xhi =>
        LET x == Trace[l].xlo
            dist == Abs(x - am)
        IN  Abs(x - am') <= dist - (dist \div n) + 3)]_tvars
C08_FaultIsNoOpObs ==
  [][NewTrace \/ (sout'.ev \in {"fail", "nonfinite"} => am' = am /\ fin' = fin)]_tvars

Report == l = N + 1 => PrintT(<<"TRACE-DONE", N, "DRIFT", drift>>)
TraceAccepted == TLCGet("stats").diameter = N
==============================================================================
