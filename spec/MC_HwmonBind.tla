------------------------------- MODULE MC_HwmonBind ------------------------------
(* C17 on the definition: bindings do not depend on the enumeration order of chips.     *)
EXTENDS HwmonBind, TLC
VARIABLES tree, perm, fsel, ssel
vars == <<tree, perm, fsel, ssel>>
Names == {"chipa", "chipb", "chipc"}
Subsets == {{}, {1}, {2, 4}, {1, 2, 3}}
Perms(n) == { p \in [1..n -> 1..n] : \A i, j \in 1..n : i # j => p[i] # p[j] }
Trees == { <<[name |-> "chipa", fans |-> f1, temps |-> t1], [name |-> "chipb", fans |-> f2, temps |-> t2],
             [name |-> "chipc", fans |-> {1}, temps |-> {1}]>> : f1 \in Subsets, t1 \in Subsets, f2 \in Subsets, t2 \in {{}, {2, 3}} }
FanSels == { [platform |-> p, index |-> i, rpmChannel |-> c, pwmChannel |-> w] :
               p \in {"chipa", "chipb", "nochip"}, i \in {0, 1, 2, 4}, c \in {0, 2, 3}, w \in {0, 1} }
SenSels == { [platform |-> p, index |-> i] : p \in {"chipa", "chipb", "nochip"}, i \in {1, 2, 4} }
Init == tree \in Trees /\ perm \in Perms(3) /\ fsel \in {s \in FanSels : (s.index = 0) # (s.rpmChannel = 0)} /\ ssel \in SenSels
Next == UNCHANGED vars
Spec == Init /\ [][Next]_vars
C17_OrderIndependent ==
  /\ BindFan(Permuted(tree, perm), fsel) = BindFan(tree, fsel)
  /\ BindSensor(Permuted(tree, perm), ssel) = BindSensor(tree, ssel)
C17_BoundDeviceExists ==
  LET b == BindFan(tree, fsel) IN
  ~b.err => \E i \in 1..3 : tree[i].name = b.chip /\ b.rpm \in tree[i].fans /\ tree[i].name = fsel.platform
==============================================================================
