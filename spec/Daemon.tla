-------------------------------- MODULE Daemon --------------------------------
(* The life cycle of the fan controllers of one fan2go process, as                *)
(* internal/controller/controller.go (Run, RunInitializationSequence,            *)
(* computePwmMap, restorePwmEnabled) and internal/backend.go (actors, signal      *)
(* actor) execute it, across process restarts and CLI calls on one database.      *)
(*                                                                                *)
(* Per fan f:                                                                     *)
(*   ph[f]  "Off" -> Capture -> "Wait" -> WaitDone -> "Load"                      *)
(*          Load: stored data?  yes -> "Map"                                      *)
(*                no, hwmon     -> "AnaWait" -(mutex)-> "Ana" -> ("Sweep" ->)     *)
(*                                 "Mapped" -> "Meas" (RPM curve) -> "Map"        *)
(*                no, file/cmd  -> save default data -> "Map"                     *)
(*          "Map" -(mutex)-> "MapRun": config map | stored map | sweep -> "Attach" *)
(*          -> "Delay"                                                            *)
(*          "Delay" (1 s) -> "Reg" (ticking) -> "Rest1" -> "Rest2" -> "Rest3"     *)
(*          -> "Done" (loop ended; Run returns when the context is cancelled)     *)
(* Global: the context (cancelled by the first signal), the initialisation mutex, *)
(* the process state, the database (which entries exist per fan).                 *)
(*                                                                                *)
(* Faults and driver behaviour are environment choices: every write during        *)
(* restoration is "ok", "fail" (error, nothing written) or "ign" (reported as     *)
(* success by the write, nothing written).                                        *)
EXTENDS Integers, FiniteSets, Sequences, TLC

\* The configuration is the record cf, chosen in the initial state (exhaustive models) or bound
\* from the recorded trace (trace validation):
\*   cf.fans       set of fan ids
\*   cf.kind       [fans -> {"hwmon","file","cmd"}]
\*   cf.hasMode    [fans -> BOOLEAN]  pwmN_enable exists
\*   cf.hasRpm     [fans -> BOOLEAN]
\*   cf.cfgMap     [fans -> BOOLEAN]  pwmMap given in the configuration
\*   cf.cfgMinMax  [fans -> BOOLEAN]  minPwm and maxPwm both configured
\*   cf.parallel   runFanInitializationInParallel
CONSTANTS
  MaxSignals,    \* how many termination signals may arrive (0..3)
  Outcomes,      \* subset of {"ok","fail","ign"}: driver behaviour for the first two restore writes
  Outcomes3,     \* ... and for the final full-speed write
  OrigModes,     \* control modes a fan may be in when fan2go starts
  OrigPwms,      \* PWM values a fan may show when fan2go starts
  MaxFaults,     \* budget of injected read/write faults during regulation
  MaxStarts,     \* process starts (C15)
  SkipInitWhenMinMax  \* README behaviour (not implemented by the code: FALSE)

VARIABLES
  cf,        \* configuration record (see above), never changes within a run
  ph,        \* [Fans -> phase]
  pwm, mode, \* [Fans -> Int]  the fan's registers
  orig,      \* [Fans -> [pwm, mode]] captured original state
  reg,       \* [Fans -> BOOLEAN] regulation of this fan began in this process
  mtx,       \* holder of the initialisation mutex: a fan or "none"
  ctx,       \* "live" | "cancelled"
  proc,      \* "run" | "exited" | "crashed" | "down" (not started)
  sigs,      \* signals received so far
  db,        \* [Fans -> [data: BOOLEAN, map: BOOLEAN]] stored characterisation
  cnt,       \* [Fans -> [sweeps, meas]] analysis activity since the process started
  ana,       \* [Fans -> BOOLEAN] the fan is inside a PWM sweep or RPM measurement right now
  faults,    \* injected faults so far
  starts,    \* process starts so far
  discarded, \* [Fans -> BOOLEAN] the user discarded the stored data since it was stored
  had        \* [Fans -> [data, map]] what was stored (or configured: map) when the process started

dvars == <<cf, ph, pwm, mode, orig, reg, mtx, ctx, proc, sigs, db, cnt, ana, faults, starts, discarded, had>>

Manual == 1
Full == 255

Phases == {"Off", "Wait", "Load", "AnaWait", "Ana", "Sweep", "Mapped", "Meas", "Map", "MapRun", "Attach", "Delay",
           "Reg", "Rest1", "Rest2", "Rest3", "Done", "Failed"}

DInit(c) ==
  /\ cf = c
  /\ ph = [f \in cf.fans |-> "Off"]
  /\ pwm \in [cf.fans -> OrigPwms]
  /\ mode \in [cf.fans -> OrigModes]
  /\ orig = [f \in cf.fans |-> [pwm |-> -1, mode |-> -1]]
  /\ reg = [f \in cf.fans |-> FALSE]
  /\ mtx = "none" /\ ctx = "live" /\ proc = "down" /\ sigs = 0
  /\ db = [f \in cf.fans |-> [data |-> FALSE, map |-> FALSE]]
  /\ cnt = [f \in cf.fans |-> [sweeps |-> 0, meas |-> 0]]
  /\ ana = [f \in cf.fans |-> FALSE]
  /\ faults = 0 /\ starts = 0
  /\ discarded = [f \in cf.fans |-> FALSE]
  /\ had = [f \in cf.fans |-> [data |-> FALSE, map |-> FALSE]]

Running == proc = "run"

------------------------------------------------------------------------------
\* process start: all controllers begin their Run
Start ==
  /\ proc \in {"down", "exited", "crashed"} /\ starts < MaxStarts
  /\ proc' = "run" /\ starts' = starts + 1
  /\ ph' = [f \in cf.fans |-> "Off"]
  /\ reg' = [f \in cf.fans |-> FALSE]
  /\ cnt' = [f \in cf.fans |-> [sweeps |-> 0, meas |-> 0]]
  /\ ana' = [f \in cf.fans |-> FALSE]
  /\ mtx' = "none" /\ ctx' = "live" /\ sigs' = 0
  /\ had' = [f \in cf.fans |-> [data |-> db[f].data, map |-> db[f].map \/ cf.cfgMap[f]]]
  /\ UNCHANGED <<pwm, mode, orig, db, faults, discarded>>

\* can the fan's PWM value be read back? (a command fan without getPwm cannot; configurations that do not say are readable)
HasPwm(f) == IF "hasPwm" \in DOMAIN cf THEN cf.hasPwm[f] ELSE TRUE

\* Run 123-137: remember the fan's PWM value and control mode (a value that cannot be read is remembered as 0)
Capture(f) ==
  /\ Running /\ ph[f] = "Off"
  /\ orig' = [orig EXCEPT ![f] = [pwm |-> IF HasPwm(f) THEN pwm[f] ELSE 0, mode |-> IF cf.hasMode[f] THEN mode[f] ELSE -1]]
  /\ ph' = [ph EXCEPT ![f] = "Wait"]
  /\ UNCHANGED <<pwm, mode, reg, mtx, ctx, proc, sigs, db, cnt, ana, faults, starts, discarded, had>>

\* Run 141: the start-up wait is not interruptible
WaitDone(f) ==
  /\ Running /\ ph[f] = "Wait"
  /\ ph' = [ph EXCEPT ![f] = "Load"]
  /\ UNCHANGED <<pwm, mode, orig, reg, mtx, ctx, proc, sigs, db, cnt, ana, faults, starts, discarded, had>>

NeedsAnalysis(f) == ~db[f].data /\ cf.kind[f] = "hwmon" /\ ~(SkipInitWhenMinMax /\ cf.cfgMinMax[f])

\* Run 146-162
Load(f) ==
  /\ Running /\ ph[f] = "Load"
  /\ IF NeedsAnalysis(f)
       THEN ph' = [ph EXCEPT ![f] = "AnaWait"] /\ db' = db
       ELSE /\ ph' = [ph EXCEPT ![f] = "Map"]
            /\ db' = [db EXCEPT ![f].data = TRUE]     \* file/cmd: default data is saved
  /\ discarded' = [discarded EXCEPT ![f] = IF db[f].data THEN @ ELSE FALSE]
  /\ UNCHANGED <<pwm, mode, orig, reg, mtx, ctx, proc, sigs, cnt, ana, faults, starts, had>>

\* RunInitializationSequence: take the mutex (unless parallel) for the whole sequence
AnaLock(f) ==
  /\ Running /\ ph[f] = "AnaWait"
  /\ cf.parallel \/ mtx = "none"
  /\ mtx' = IF cf.parallel THEN mtx ELSE f
  /\ ph' = [ph EXCEPT ![f] = "Ana"]
  /\ UNCHANGED <<pwm, mode, orig, reg, ctx, proc, sigs, db, cnt, ana, faults, starts, discarded, had>>

\* does doComputePwmMap have to sweep the fan through all PWM values?
MustSweep(f) == ~cf.cfgMap[f] /\ ~db[f].map

\* ... the PWM map: configuration override | stored | sweep 255..0 (sets manual mode);
\* whichever it is, RunInitializationSequence stores it
AnaMap(f) ==
  /\ Running /\ ph[f] = "Ana"
  /\ IF MustSweep(f)
       THEN /\ ph' = [ph EXCEPT ![f] = "Sweep"]
            /\ ana' = [ana EXCEPT ![f] = TRUE]
            /\ cnt' = [cnt EXCEPT ![f].sweeps = @ + 1]
            /\ mode' = [mode EXCEPT ![f] = IF cf.hasMode[f] THEN Manual ELSE @]
            /\ db' = db
       ELSE /\ ph' = [ph EXCEPT ![f] = "Mapped"]
            /\ db' = [db EXCEPT ![f].map = TRUE]
            /\ UNCHANGED <<ana, cnt, mode>>
  /\ UNCHANGED <<pwm, orig, reg, mtx, ctx, proc, sigs, faults, starts, discarded, had>>

SweepEnd(f, p) ==
  /\ Running /\ ph[f] = "Sweep"
  /\ ph' = [ph EXCEPT ![f] = "Mapped"]
  /\ ana' = [ana EXCEPT ![f] = FALSE]
  /\ db' = [db EXCEPT ![f].map = TRUE]
  /\ pwm' = [pwm EXCEPT ![f] = p]     \* left at map[startPwm]
  /\ UNCHANGED <<mode, orig, reg, mtx, ctx, proc, sigs, cnt, faults, starts, discarded, had>>

\* ... the RPM curve measurement (hwmon fans always have an RPM input)
MeasBegin(f) ==
  /\ Running /\ ph[f] = "Mapped"
  /\ ph' = [ph EXCEPT ![f] = "Meas"]
  /\ ana' = [ana EXCEPT ![f] = TRUE]
  /\ cnt' = [cnt EXCEPT ![f].meas = @ + 1]
  /\ mode' = [mode EXCEPT ![f] = IF cf.hasMode[f] THEN Manual ELSE @]
  /\ UNCHANGED <<pwm, orig, reg, mtx, ctx, proc, sigs, db, faults, starts, discarded, had>>

\* measurement finished: data attached and saved, mutex released
MeasEnd(f, p) ==
  /\ Running /\ ph[f] = "Meas"
  /\ ana' = [ana EXCEPT ![f] = FALSE]
  /\ db' = [db EXCEPT ![f].data = TRUE]
  /\ discarded' = [discarded EXCEPT ![f] = FALSE]
  /\ mtx' = IF mtx = f THEN "none" ELSE mtx
  /\ ph' = [ph EXCEPT ![f] = "Map"]
  /\ pwm' = [pwm EXCEPT ![f] = p]
  /\ UNCHANGED <<mode, orig, reg, ctx, proc, sigs, cnt, faults, starts, had>>

\* a read or write that the measurement depends on fails: the initialization sequence ends with an error (nothing is attached
\* or stored, the mutex is released) and Run hands the fan back before it returns - "restore after failed initialisation"
MeasFail(f) ==
  /\ Running /\ ph[f] = "Meas" /\ faults < MaxFaults
  /\ faults' = faults + 1
  /\ ana' = [ana EXCEPT ![f] = FALSE]
  /\ mtx' = IF mtx = f THEN "none" ELSE mtx
  /\ ph' = [ph EXCEPT ![f] = "Rest1"]
  /\ UNCHANGED <<pwm, mode, orig, reg, ctx, proc, sigs, db, cnt, starts, discarded, had>>

\* Run 174: computePwmMap under the mutex (file/cmd fans sweep here on their first start)
MapLock(f) ==
  /\ Running /\ ph[f] = "Map"
  /\ cf.parallel \/ mtx = "none"
  /\ mtx' = IF cf.parallel THEN mtx ELSE f
  /\ ph' = [ph EXCEPT ![f] = "MapRun"]
  /\ IF MustSweep(f)
       THEN /\ ana' = [ana EXCEPT ![f] = TRUE]
            /\ cnt' = [cnt EXCEPT ![f].sweeps = @ + 1]
            /\ mode' = [mode EXCEPT ![f] = IF cf.hasMode[f] THEN Manual ELSE @]
       ELSE UNCHANGED <<ana, cnt, mode>>
  /\ UNCHANGED <<pwm, orig, reg, ctx, proc, sigs, db, faults, starts, discarded, had>>

\* computePwmMap returns: map stored, mutex released (no hook: a silent step for trace validation)
MapDone(f, p) ==
  /\ Running /\ ph[f] = "MapRun"
  /\ ana' = [ana EXCEPT ![f] = FALSE]
  /\ db' = [db EXCEPT ![f].map = IF cf.cfgMap[f] THEN @ ELSE TRUE]
  /\ mtx' = IF mtx = f THEN "none" ELSE mtx
  /\ ph' = [ph EXCEPT ![f] = "Attach"]
  /\ pwm' = IF ana[f] THEN [pwm EXCEPT ![f] = p] ELSE pwm
  /\ UNCHANGED <<mode, orig, reg, ctx, proc, sigs, cnt, faults, starts, discarded, had>>

\* Run 179-187: distinct PWM values computed, settings logged, the loop group is set up
Attached(f) ==
  /\ Running /\ ph[f] = "Attach"
  /\ ph' = [ph EXCEPT ![f] = "Delay"]
  /\ UNCHANGED <<pwm, mode, orig, reg, mtx, ctx, proc, sigs, db, cnt, ana, faults, starts, discarded, had>>

\* Run 215: one second delay, then the ticker; the context is checked at every tick
LoopStart(f) ==
  /\ Running /\ ph[f] = "Delay"
  /\ ph' = [ph EXCEPT ![f] = "Reg"]
  /\ UNCHANGED <<pwm, mode, orig, reg, mtx, ctx, proc, sigs, db, cnt, ana, faults, starts, discarded, had>>

\* one control cycle (Controller.tla has the detail): manual mode, some PWM value.
\* (No guard on the context: the loop's select takes a pending tick or the cancellation at random,
\* so cycles may still happen after the context has been cancelled.)
Cycle(f, p) ==
  /\ Running /\ ph[f] = "Reg"
  /\ reg' = [reg EXCEPT ![f] = TRUE]
  /\ mode' = [mode EXCEPT ![f] = IF cf.hasMode[f] THEN Manual ELSE @]
  /\ pwm' = [pwm EXCEPT ![f] = p]
  /\ UNCHANGED <<ph, orig, mtx, ctx, proc, sigs, db, cnt, ana, faults, starts, discarded, had>>

\* a cycle whose write fails: logged, regulation goes on
CycleWriteFault(f) ==
  /\ Running /\ ph[f] = "Reg" /\ faults < MaxFaults
  /\ faults' = faults + 1
  /\ reg' = [reg EXCEPT ![f] = TRUE]
  /\ UNCHANGED <<ph, pwm, mode, orig, mtx, ctx, proc, sigs, db, cnt, ana, starts, discarded, had>>

\* fatal control error (stalled at max PWM, first PWM read fails, curve cannot be evaluated):
\* reported, the fan is restored, the loop ends
ControlError(f) ==
  /\ Running /\ ph[f] = "Reg" /\ faults < MaxFaults
  /\ faults' = faults + 1
  /\ reg' = [reg EXCEPT ![f] = TRUE]
  /\ ph' = [ph EXCEPT ![f] = "Rest1"]
  /\ UNCHANGED <<pwm, mode, orig, mtx, ctx, proc, sigs, db, cnt, ana, starts, discarded, had>>

\* the tick that sees the cancelled context
Cancelled(f) ==
  /\ Running /\ ph[f] = "Reg" /\ ctx = "cancelled"
  /\ ph' = [ph EXCEPT ![f] = "Rest1"]
  /\ UNCHANGED <<pwm, mode, orig, reg, mtx, ctx, proc, sigs, db, cnt, ana, faults, starts, discarded, had>>

\* restorePwmEnabled, step 1: write the original PWM value (errors are only logged)
Restore1(f, o) ==
  /\ Running /\ ph[f] = "Rest1"
  /\ pwm' = [pwm EXCEPT ![f] = IF o = "ok" THEN orig[f].pwm ELSE @]
  /\ ph' = [ph EXCEPT ![f] = IF cf.hasMode[f] /\ orig[f].mode # Manual THEN "Rest2" ELSE "Rest3"]
  /\ UNCHANGED <<mode, orig, reg, mtx, ctx, proc, sigs, db, cnt, ana, faults, starts, discarded, had>>

\* step 2: write the original control mode and read it back; done if it took effect
Restore2(f, o) ==
  /\ Running /\ ph[f] = "Rest2"
  /\ mode' = [mode EXCEPT ![f] = IF o = "ok" THEN orig[f].mode ELSE @]
  /\ ph' = [ph EXCEPT ![f] = IF o = "ok" \/ (o = "ign" /\ mode[f] = orig[f].mode) THEN "Done" ELSE "Rest3"]
  /\ UNCHANGED <<pwm, orig, reg, mtx, ctx, proc, sigs, db, cnt, ana, faults, starts, discarded, had>>

\* step 3: otherwise full speed
Restore3(f, o) ==
  /\ Running /\ ph[f] = "Rest3"
  /\ pwm' = [pwm EXCEPT ![f] = IF o = "ok" THEN Full ELSE @]
  /\ ph' = [ph EXCEPT ![f] = "Done"]
  /\ UNCHANGED <<mode, orig, reg, mtx, ctx, proc, sigs, db, cnt, ana, faults, starts, discarded, had>>

\* a termination signal: the first one cancels the context, later ones are absorbed
Signal ==
  /\ Running /\ sigs < MaxSignals
  /\ sigs' = sigs + 1
  /\ ctx' = "cancelled"
  /\ UNCHANGED <<ph, pwm, mode, orig, reg, mtx, proc, db, cnt, ana, faults, starts, discarded, had>>

\* all controllers have returned after the cancellation: the process exits
Exit ==
  /\ Running /\ ctx = "cancelled"
  /\ \A f \in cf.fans : ph[f] \in {"Done", "Failed"}
  /\ proc' = "exited"
  /\ UNCHANGED <<ph, pwm, mode, orig, reg, mtx, ctx, sigs, db, cnt, ana, faults, starts, discarded, had>>

\* a controller whose Run returned an error makes its actor panic: the process dies at once
Crash ==
  /\ Running /\ \E f \in cf.fans : ph[f] = "Failed"
  /\ proc' = "crashed"
  /\ UNCHANGED <<ph, pwm, mode, orig, reg, mtx, ctx, sigs, db, cnt, ana, faults, starts, discarded, had>>

\* CLI between two runs: `fan reset` deletes both entries, `fan init` deletes and re-analyses
CliReset(f) ==
  /\ proc \in {"down", "exited", "crashed"}
  /\ db' = [db EXCEPT ![f] = [data |-> FALSE, map |-> FALSE]]
  /\ discarded' = [discarded EXCEPT ![f] = TRUE]
  /\ UNCHANGED <<ph, pwm, mode, orig, reg, mtx, ctx, proc, sigs, cnt, ana, faults, starts, had>>

CliInit(f) ==
  /\ proc \in {"down", "exited", "crashed"}
  /\ db' = [db EXCEPT ![f] = [data |-> cf.hasRpm[f], map |-> TRUE]]
  /\ discarded' = [discarded EXCEPT ![f] = ~cf.hasRpm[f]]   \* without RPM sensor nothing is measured
  /\ UNCHANGED <<ph, pwm, mode, orig, reg, mtx, ctx, proc, sigs, cnt, ana, faults, starts, had>>

FanStep(f) ==
  \/ Capture(f) \/ WaitDone(f) \/ Load(f) \/ AnaLock(f) \/ AnaMap(f)
  \/ MeasBegin(f) \/ MeasFail(f) \/ MapLock(f) \/ Attached(f) \/ LoopStart(f)
  \/ (\E p \in OrigPwms : SweepEnd(f, p) \/ MeasEnd(f, p) \/ MapDone(f, p) \/ Cycle(f, p))
  \/ CycleWriteFault(f) \/ ControlError(f) \/ Cancelled(f)
  \/ \E o \in Outcomes : Restore1(f, o) \/ Restore2(f, o)
  \/ \E o \in Outcomes3 : Restore3(f, o)

DNext == /\ Start \/ Signal \/ Exit \/ Crash \/ (\E f \in cf.fans : FanStep(f) \/ CliReset(f) \/ CliInit(f))
         /\ cf' = cf

==============================================================================
