------------------------------- MODULE MC_C10 ---------------------------------
(* C10: a stalled never-stop fan is noticed and pushed within a bounded number   *)
(* of RPM polls.  Exact model: the real smoothing arithmetic (exact rationals),  *)
(* a plant that spins only above a threshold (or never), the direct control      *)
(* loop under a constant curve value, RPM polls and control cycles interleaved   *)
(* (at least one cycle between two polls, as the tick rates guarantee).          *)
EXTENDS ControllerProps, TLC

CONSTANTS Tier

VARIABLES theta,   \* the fan turns iff pwm > theta
          phase,   \* "poll" | "any": a cycle must follow a poll
          polls,   \* polls so far
          spun     \* polls that saw rotation (exploration stops soon after the fan turns)

mvars == <<pvars, theta, phase, polls, spun>>

Lim == <<250, 255>>
Windows == IF Tier = "quick" THEN {1, 3} ELSE {1, 2, 3, 4}
Thetas == IF Tier = "quick" THEN {249, 251, 254, 255} ELSE {249, 250, 251, 252, 253, 254, 255}
\* (the exact rational average has denominator n^k after k polls: priors are bounded so that n^k stays below 2^31 for n <= 4)
Priors == IF Tier = "quick" THEN {Rat(0, 1), Rat(20, 1)} ELSE {Rat(0, 1), Rat(1, 1), Rat(20, 1), Rat(35, 1)}

Cfgs == { [kind |-> k, neverStop |-> TRUE, hasRpm |-> TRUE, hasPwm |-> TRUE, hasMode |-> (k = "hwmon"), modeStuck |-> FALSE,
           gmin |-> IF k = "hwmon" THEN Lim[1] ELSE 0, mx |-> IF k = "hwmon" THEN Lim[2] ELSE P,
           map |-> Identity, keys |-> 0..P, wf |-> Identity, ws |-> [r \in 0..P |-> {r}],
           n |-> n, alg |-> [t |-> "direct"]] : k \in {"hwmon", "file"}, n \in Windows }

\* file fans regulate over 0..255: put the curve at the top so that few raises reach the maximum
CurveOf(c) == IF c.kind = "hwmon" THEN 0 ELSE 250

Init == \E c \in Cfgs, th \in Thetas, a0 \in Priors :
          /\ CInit(c, 0, 1, a0)
          /\ touched = FALSE /\ zeros = 0 /\ spin = 0 /\ H4Init
          /\ theta = th /\ phase = "any" /\ polls = 0 /\ spun = 0

Reading == IF pwm > theta THEN 1000 ELSE 0

Poll == /\ phase = "any" /\ status = "Regulating"
        /\ MeasureRpm(Reading, TRUE) /\ HRpm(Reading) /\ H4Keep
        /\ phase' = "cycle" /\ polls' = polls + 1
        /\ spun' = IF Reading > 0 THEN spun + 1 ELSE spun
        /\ theta' = theta

Cyc == /\ CycleAlg(CurveOf(cfg), 200) /\ HCycle /\ H4Keep
       /\ phase' = "any"
       /\ UNCHANGED <<theta, polls, spun>>

Next == Poll \/ Cyc
Spec == Init /\ [][Next]_mvars

Explore == spun <= 2

\* the whole episode terminates: the fan turns, or the stall is reported, within a bounded
\* number of polls (every step of the ladder takes at most StallBound + 1 polls)
C10_Terminates ==
  status = "Regulating" /\ spun = 0 => polls <= (cfg.mx - cfg.gmin + 2) * (StallBound + 2)
\* a fan that never turns ends in the reported stall, never in silence: once at max, error
C10_ReportedAtMax ==
  [][status = "Regulating" /\ status' = "ControlError" => last >= cfg.mx /\ pwm <= theta]_mvars

NV_NoError == status = "Regulating"
NV_NoRaise == offset < 3
NV_NeverSpins == spun = 0
==============================================================================
