--------------------------------- MODULE Curves --------------------------------
(* The documented meaning of fan2go's speed curves (internal/curves, util.          *)
(* CalculateInterpolatedCurveValue), in exact integer arithmetic.                    *)
(* Temperatures T are integer milli-degrees; curve configurations use degrees.       *)
(* Every evaluation has an ENVELOPE: the set of admissible integer results - one      *)
(* value except at the few points where float64/float32 rounding may land on either   *)
(* side (exact multiples for truncations, near-ties for roundings).                   *)
EXTENDS Integers, Sequences, FiniteSets, Numeric, PwmMap

\* ---- linear, min/max form -------------------------------------------------
\* 0 at/below min, 255 at/above max, in between int(ratio*255) (truncation)
LinMinMax(T, mn, mx) ==
  IF T >= mx * 1000 THEN P
  ELSE IF T <= mn * 1000 THEN 0
  ELSE TruncDiv((T - mn * 1000) * P, (mx - mn) * 1000)

LinMinMaxSet(T, mn, mx) ==
  LET e == LinMinMax(T, mn, mx)
  IN  IF T < mx * 1000 /\ T > mn * 1000 /\ ((T - mn * 1000) * P) % ((mx - mn) * 1000) = 0 /\ e > 0
        THEN {e, e - 1} ELSE {e}

\* ---- linear, steps form ---------------------------------------------------
\* steps: function from temperatures (degrees) to speeds; clamped outside, linear in between,
\* rounded half away from zero (after a float32 conversion: near-ties may go either way)
NearTie(num, den) == LET r == (2 * Abs(num)) % (2 * den) IN Abs(r - den) * 4096 <= den
RoundSet(num, den) ==
  LET r == RoundHalfAway(num, den)
  IN  IF NearTie(num, den) THEN {TruncDiv(num, den), TruncDiv(num, den) + (IF num >= 0 THEN 1 ELSE -1), r} ELSE {r}

StepsSet(T, steps) ==
  LET ks == DOMAIN steps
      lo == MinI(ks)
      hi == MaxI(ks)
  IN  IF T <= lo * 1000 THEN {steps[lo]}
      ELSE IF T >= hi * 1000 THEN {steps[hi]}
      ELSE LET x0 == MaxI({k \in ks : k * 1000 <= T})
               x1 == MinI({k \in ks : k * 1000 > T})
               den == (x1 - x0) * 1000
               num == steps[x0] * den + (T - x0 * 1000) * (steps[x1] - steps[x0])
           IN  IF T = x0 * 1000 THEN {steps[x0]} ELSE RoundSet(num, den)
StepsVal(T, steps) == CHOOSE v \in StepsSet(T, steps) : \A w \in StepsSet(T, steps) : w <= v

\* ---- function curves -----------------------------------------------------
SeqSum(vs) == LET RECURSIVE S(_)
                  S(i) == IF i = 0 THEN 0 ELSE vs[i] + S(i - 1)
              IN  S(Len(vs))
SeqSet(vs) == {vs[i] : i \in 1..Len(vs)}

\* vs: non-empty sequence of member values
Fn(type, vs) ==
  CASE type = "sum"        -> Min2(P, SeqSum(vs))
    [] type = "difference" -> Max2(0, vs[1] - SeqSum(Tail(vs)))
    [] type = "delta"      -> MaxI(SeqSet(vs)) - MinI(SeqSet(vs))
    [] type = "average"    -> SeqSum(vs) \div Len(vs)
    [] type = "minimum"    -> MinI(SeqSet(vs))
    [] type = "maximum"    -> MaxI(SeqSet(vs))

FnTypes == {"sum", "difference", "delta", "average", "minimum", "maximum"}
MonotoneFnTypes == {"sum", "average", "minimum", "maximum"}

\* ---- PID curve -------------------------------------------------------------
\* gains P = p/100, I = i/1000, D = d/1000 (integers p, i, d), set point sp in degrees,
\* measurements in tenths of a degree (T = 100*m milli-degrees), evaluations exactly 1 s apart.
\* state: [integ (tenth-degree seconds), perr (tenth degrees), started]
PidDen == 10000
PidInit == [integ |-> 0, perr |-> 0, started |-> FALSE]
PidErr(sp, m) == sp * 10 - m
PidNumOf(g, st, e) == 10 * g.p * e + g.i * (st.integ + e) + g.d * (e - st.perr)
PidValSet(g, st, sp, m) ==
  IF ~st.started THEN {0}
  ELSE LET e == PidErr(sp, m)
           n == Clamp(PidNumOf(g, st, e), 0, PidDen)
           v == (n * P) \div PidDen
       IN  IF (n * P) % PidDen = 0 /\ v > 0 THEN {v, v - 1} ELSE {v}
PidStep(st, sp, m) ==
  LET e == PidErr(sp, m)
  IN  [integ |-> IF st.started THEN st.integ + e ELSE st.integ, perr |-> e, started |-> TRUE]
==============================================================================
