------------------------------ MODULE MC_Smoothing -----------------------------
EXTENDS Smoothing, TLC
CONSTANTS Depth
VARIABLE d
mvars == <<svars, d>>
Readings == {0, 1, 40, 95}
Init == \E k \in {"hwmon", "file", "cmd"}, w \in 1..4, a0 \in {0, 50} : SInit(k, w, a0) /\ d = 0
Next == /\ d < Depth /\ d' = d + 1
        /\ (\E x \in Readings : Poll(x)) \/ PollFail \/ PollNonFinite
Spec == Init /\ [][Next]_mvars
==============================================================================
