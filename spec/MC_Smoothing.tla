------------------------------ MODULE MC_Smoothing -----------------------------
EXTENDS Smoothing, TLC
CONSTANTS Depth, Wide
VARIABLE d
mvars == <<svars, d>>
\* (exact rationals: denominators w^Depth; Depth 6 with w <= 4 keeps every product below 2^31 - the thorough tier widens
\*  the value sets instead of the depth)
Readings == IF Wide THEN {0, 1, 7, 40, 95} ELSE {0, 1, 40, 95}
Init == \E k \in {"hwmon", "file", "cmd"}, w \in 1..4, a0 \in (IF Wide THEN {0, 13, 50, 95} ELSE {0, 50}) : SInit(k, w, a0) /\ d = 0
Next == /\ d < Depth /\ d' = d + 1
        /\ (\E x \in Readings : Poll(x)) \/ PollFail \/ PollNonFinite
Spec == Init /\ [][Next]_mvars
==============================================================================
