------------------------------ MODULE Trace_Persist ------------------------------
(* Operation sequences executed on the REAL persistence (real bbolt file), with a full   *)
(* read-back of every entry after every step, validated against Persist.tla.            *)
(* Events: Init{fans, kinds, values}; Op{op, k, f, v, res, got}; each load of the        *)
(* read-back probe is an Op of its own.  "got" is the token of the value returned.       *)
(* Conformance is exact: the model is deterministic except for CrashDuringSave, whose     *)
(* outcome is learned from the first load after it.                                      *)
EXTENDS Persist, Json, TLC, IOUtils, Sequences

VARIABLES l, drift, pending    \* pending: entry whose crash outcome is not yet observed
tvars == <<pvars, l, drift, pending>>

Trace == ndJsonDeserialize(IOEnv.VERIF_TRACE)
N == Len(Trace)
NoPending == <<>>

TInit == Trace[1].ev = "Init" /\ l = 2 /\ drift = <<>> /\ pending = NoPending /\ PInit
Note(ok) == IF ok \/ Len(drift) >= 5 THEN drift ELSE Append(drift, l)

ResOf(e) == e.res
\* the state after the step is the model's; the observation is checked against the model's
Step(e) ==
  CASE e.ev = "Init" ->
         /\ store' = [x \in Kinds \X FanIds |-> None] /\ pout' = [op |-> "init"] /\ pending' = NoPending /\ drift' = drift
    [] e.op = "save" ->
         /\ Save(e.k, e.f, e.v) /\ pending' = NoPending /\ drift' = Note(e.res = "ok")
    [] e.op = "delete" ->
         /\ Delete(e.k, e.f) /\ pending' = NoPending /\ drift' = Note(e.res = "ok")
    [] e.op = "damage" ->
         /\ store' = [store EXCEPT ![<<e.k, e.f>>] = Corrupt]
         /\ pout' = [op |-> "damage", k |-> e.k, f |-> e.f, v |-> Corrupt, res |-> "ok"]
         /\ pending' = NoPending /\ drift' = drift
    [] e.op = "crashsave" ->
         \* outcome unknown until the entry is loaded: remember old and new value
         /\ store' = store
         /\ pout' = [op |-> "crashsave", k |-> e.k, f |-> e.f, v |-> e.v, res |-> "killed"]
         /\ pending' = <<e.k, e.f, store[<<e.k, e.f>>], e.v>>
         /\ drift' = drift
    [] e.op = "load" ->
         IF pending # NoPending /\ pending[1] = e.k /\ pending[2] = e.f
           THEN \* first load of the entry that was being saved when the process was killed
                /\ pout' = [op |-> "crashload", k |-> e.k, f |-> e.f, old |-> pending[3], new |-> pending[4], got |-> e.got, res |-> e.res]
                /\ store' = [store EXCEPT ![<<e.k, e.f>>] = IF e.res = "found" THEN e.got ELSE IF e.res = "notfound" THEN None ELSE Corrupt]
                /\ pending' = NoPending /\ drift' = drift
           ELSE /\ Load(e.k, e.f) /\ pending' = pending
                /\ drift' = Note(e.res = pout'.res /\ (e.res = "found" => e.got = store[<<e.k, e.f>>]))

TNext == l <= N /\ l' = l + 1 /\ Step(Trace[l])
TSpec == TInit /\ [][TNext]_tvars

\* ---- C14 on the observed results (independent of the model's bookkeeping) ----
Obs == Trace[l - 1]
IsLoad == l > 2 /\ l <= N + 1 /\ Obs.ev = "Op" /\ Obs.op = "load"
\* what the model says is stored in the entry just loaded (before discarding)
C14_LoadObserved ==
  [][pout'.op = "load" =>
       LET e == Trace[l] IN
       /\ (store[<<e.k, e.f>>] \in Values => e.res = "found" /\ e.got = store[<<e.k, e.f>>])
       /\ (store[<<e.k, e.f>>] = None => e.res = "notfound")
       /\ (store[<<e.k, e.f>>] = Corrupt => e.res = "discarded")
       /\ e.res # "error"]_tvars
\* a save killed at an arbitrary moment took effect entirely or not at all
C14_CrashAtomicObs ==
  pout.op = "crashload" =>
     \/ (pout.res = "found" /\ pout.got \in {pout.old, pout.new})
     \/ (pout.res = "notfound" /\ pout.old = None)
C14_NoErrors == [][Trace[l].ev = "Op" => Trace[l].res # "error"]_tvars

Report == l = N + 1 => PrintT(<<"TRACE-DONE", N, "DRIFT", drift>>)
TraceAccepted == TLCGet("stats").diameter = N
==============================================================================
