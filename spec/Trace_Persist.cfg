SPECIFICATION TSpec
CONSTANTS
  Kinds = {"data", "map"}
  FanIds = {"a", "b", "c"}
  Values = {"v1", "v2", "v3", "vf"}
CHECK_DEADLOCK FALSE
INVARIANTS
  Report
  C14_CrashAtomicObs
PROPERTIES
  C14_LoadObserved
  C14_NoErrors
POSTCONDITION TraceAccepted
