SPECIFICATION Spec
CONSTANTS
  Kinds = {"data", "map"}
  FanIds = {"a", "b"}
  Values = {"v1", "v2"}
  Depth = 5
CHECK_DEADLOCK FALSE
INVARIANTS
  C14_TypeOK
PROPERTIES
  C14_Isolation
  C14_LoadReturnsStored
  C14_CorruptDiscarded
  C14_DeleteIdempotent
  C14_CrashAtomic
