------------------------------- MODULE FanLimits ------------------------------
(* Limits of a hwmon fan: minimum / start / maximum PWM, derived from measured      *)
(* PWM -> RPM data (fans.ComputePwmBoundaries, HwMonFan.AttachFanRpmCurveData) with  *)
(* the rule "a configured value always wins" (setters) and "minimum 0 unless         *)
(* neverStop" (GetMinPwm).  RPM values are given in tenths of an RPM so that         *)
(* fractional measurements can be expressed with integers; the code compares whole   *)
(* RPM (int(rpm), truncation).                                                       *)
EXTENDS Integers, FiniteSets, FiniteSetsExt, PwmMap

NoVal == -1                          \* "not configured" / "not set"

Whole(v) == v \div 10                \* whole RPM of a measurement given in tenths
NonZero(d) == { p \in DOMAIN d : Whole(d[p]) > 0 }
TopRpm(d) == MaxI({ Whole(d[p]) : p \in DOMAIN d })

\* lowest measured PWM with non-zero RPM (255 when the fan never turned)
StartOf(d) == IF NonZero(d) = {} THEN P ELSE MinI(NonZero(d))
\* lowest measured PWM at which the highest RPM (in whole RPM) is reached
MaxOf(d) == IF TopRpm(d) = 0 THEN P ELSE MinI({ p \in DOMAIN d : Whole(d[p]) = TopRpm(d) })

\* A fan object: configuration c = [cmin, cstart, cmax, neverStop] (NoVal = not configured)
\* and the current fields f = [min, start, max] (NoVal = nil).
NewFan(c) == [min |-> c.cmin, start |-> c.cstart, max |-> c.cmax]

GetMin(c, f) == IF c.neverStop /\ f.min # NoVal THEN f.min ELSE 0
GetStart(c, f) == IF f.start # NoVal THEN f.start ELSE P
GetMax(c, f) == IF f.max # NoVal THEN f.max ELSE P
View(c, f) == [gmin |-> GetMin(c, f), start |-> GetStart(c, f), max |-> GetMax(c, f)]

\* setter: the configured value wins
Set(cv, cur, new) == IF cv = NoVal THEN new ELSE cur

\* AttachFanRpmCurveData: refused for empty data; otherwise the limits are judged on THIS data
Refused(d) == DOMAIN d = {}
Attach(c, f, d) ==
  IF Refused(d) THEN f
  ELSE LET f0     == [f EXCEPT !.start = IF c.cstart = NoVal THEN NoVal ELSE @]  \* forget a measured start
           user   == GetStart(c, f0)
           start  == IF user < P THEN user ELSE StartOf(d)
       IN  [min |-> Set(c.cmin, f0.min, start), start |-> Set(c.cstart, f0.start, start),
            max |-> Set(c.cmax, f0.max, MaxOf(d))]
==============================================================================
