SPECIFICATION Spec
CHECK_DEADLOCK FALSE
INVARIANTS
  Report
  C11_AcceptedIsWellFormed
  C11_AcceptedRuns
  C11_DocumentedIsAccepted
  C11_ConformsValidator
POSTCONDITION TraceAccepted
