------------------------------- MODULE MC_Curves -------------------------------
(* C06 / C07 on the definitions of Curves.tla over small universes: range 0..255,   *)
(* saturation, monotonicity of linear curves and of the monotone-preserving          *)
(* aggregates, and monotonicity of request and written value under the direct loop.  *)
EXTENDS Curves, TLC

VARIABLES kind, a, b, T1, T2
vars == <<kind, a, b, T1, T2>>

Temps == {-5000, 0, 19999, 20000, 20001, 20500, 39999, 40000, 40001, 59000, 60000, 60001, 90000}
StepKeys == {20, 40, 60}
StepVals == {0, 30, 100, 255}
AllSteps == UNION { [S -> StepVals] : S \in (SUBSET StepKeys) \ {{}} }
MonoSteps == { st \in AllSteps : \A x, y \in DOMAIN st : x <= y => st[x] <= st[y] }
Members == {0, 1, 127, 254, 255}

Init == \/ /\ kind = "lin" /\ a \in {0, 20, 39} /\ b \in {40, 41, 60} /\ T1 \in Temps /\ T2 \in Temps
        \/ /\ kind = "steps" /\ a \in AllSteps /\ b = 0 /\ T1 \in Temps /\ T2 \in Temps
        \/ /\ kind = "fn" /\ a \in FnTypes /\ b \in UNION {[1..n -> Members] : n \in 1..3} /\ T1 = 0 /\ T2 = 0
        \/ /\ kind = "rescale" /\ a \in {<<0, 255>>, <<30, 200>>, <<100, 101>>, <<0, 0>>, <<77, 203>>} /\ b \in {1, 8, 51}
           /\ T1 \in 0..254 /\ T2 = T1 + 1       \* consecutive values: monotone on all pairs
Next == UNCHANGED vars
Spec == Init /\ [][Next]_vars

R(S) == \A v \in S : v \in 0..P
C06_Range ==
  /\ (kind = "lin" => R(LinMinMaxSet(T1, a, b)))
  /\ (kind = "steps" => R(StepsSet(T1, a)))
  /\ (kind = "fn" => Fn(a, b) \in 0..P)
C06_Saturation ==
  /\ (kind = "lin" /\ T1 <= a * 1000 => LinMinMaxSet(T1, a, b) = {0})
  /\ (kind = "lin" /\ T1 >= b * 1000 => LinMinMaxSet(T1, a, b) = {P})
  /\ (kind = "steps" /\ T1 <= MinI(DOMAIN a) * 1000 => StepsSet(T1, a) = {a[MinI(DOMAIN a)]})
  /\ (kind = "steps" /\ T1 >= MaxI(DOMAIN a) * 1000 => StepsSet(T1, a) = {a[MaxI(DOMAIN a)]})
\* envelope-aware monotonicity: the largest admissible value at the lower temperature does not
\* exceed the largest at the higher one, and likewise for the smallest
LeqSets(A, B) == MaxI(A) <= MaxI(B) /\ MinI(A) <= MinI(B)
C07_Monotone ==
  /\ (kind = "lin" /\ T1 <= T2 => LeqSets(LinMinMaxSet(T1, a, b), LinMinMaxSet(T2, a, b)))
  /\ (kind = "steps" /\ a \in MonoSteps /\ T1 <= T2 => LeqSets(StepsSet(T1, a), StepsSet(T2, a)))
\* raising one member never lowers a monotone-preserving aggregate
C07_FnMonotone ==
  kind = "fn" /\ a \in MonotoneFnTypes =>
    \A i \in DOMAIN b : \A v \in Members : v >= b[i] => Fn(a, [b EXCEPT ![i] = v]) >= Fn(a, b)
C07_RescaleMonotone ==
  kind = "rescale" /\ T1 <= T2 =>
    /\ Rescale(T1, a[1], a[2]) <= Rescale(T2, a[1], a[2])
    /\ WriteFor(Quantiser(b), Rescale(T1, a[1], a[2])) <= WriteFor(Quantiser(b), Rescale(T2, a[1], a[2]))
==============================================================================
