SPECIFICATION Spec
CHECK_DEADLOCK FALSE
INVARIANTS
  C13_ConfiguredWins
  C13_MinZeroUnlessNeverStop
  C13_Derived
  C13_Def
PROPERTIES
  C13_RefusalKeeps
