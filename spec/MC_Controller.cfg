SPECIFICATION Spec
CONSTANTS
  BugD1 = FALSE
  BugD2 = FALSE
  BugD4 = FALSE
  Tier = "quick"
VIEW View
CHECK_DEADLOCK FALSE
INVARIANTS
  C01_ReqWithinLimits
  C01_WriteIsMapOfNearest
  C01_WriteIn0to255
  C01_SkipOnlyWhenEqual
  C02_NeverBelowRaisedMin
  C05_Undone
PROPERTIES
  C02_OffsetNeverDrops
  C02_MinNeverDrops
  C02_RaiseStrictlyHigher
  C02_RaiseOnlyWhenStalled
  C05_Counted
  C05_CounterOnlyInCycle
  C10_PushedOrReported
  C10_ErrorOnlyAtMax
