SPECIFICATION DSpec
CONSTANTS
  Fans <- F2
  Kind <- KindMixed
  HasMode <- ModeMixed
  HasRpm <- RpmMixed
  CfgMap <- AllFalse
  CfgMinMax <- AllFalse
  Parallel = FALSE
  MaxSignals = 1
  Outcomes <- OutOk
  Outcomes3 <- OutOk
  OrigModes = {2}
  OrigPwms = {77}
  MaxFaults = 0
  MaxStarts = 2
  SkipInitWhenMinMax = FALSE
CHECK_DEADLOCK FALSE
INVARIANTS
  C16_OneAtATime
  C16_SequencesDisjoint
  C16_MutexHeld
  C15_AtMostOnce
