------------------------------ MODULE DaemonProps ------------------------------
(* Properties C03, C09, C15, C16 over the variables of Daemon.tla.  Checked by TLC on the      *)
(* exhaustive models (MC_Daemon) and on every execution recorded from the real controllers    *)
(* (Monitor_Daemon binds the variables to the observed state).                                 *)
EXTENDS Daemon

\* trace validation concatenates traces: a "Begin" that restarts the start counter begins a new
\* behaviour (never happens inside one behaviour of Daemon.tla, where starts only grows)
NewTrace == starts' <= starts /\ proc' = "run" /\ proc # "run"

\* ---- C03: stopping regulation hands the fan back or leaves it at full speed ----
\* Excluded as vacuous: a driver that refuses the hand-back by mode AND the final full-speed write (then no
\* implementation can comply); in the model Restore3 is explored with outcome "ok" only, the drivers also refuse the
\* full-speed write where the mode write is accepted (a compliant implementation never gets that far).
Restored(f) ==
  \/ cf.hasMode[f] /\ orig[f].mode # Manual /\ mode[f] = orig[f].mode
  \/ pwm[f] = Full
\* "taken over": the controller has captured the fan's original state (any phase after "Off");
\* from then on every way out must hand the fan back - also when the termination signal arrives
\* during the start-up wait, the analysis or the first-second delay
Taken(f) == ph[f] # "Off"
C03_HandBackOrFull ==
  \A f \in cf.fans : ph[f] = "Done" => Restored(f)
\* the process never ends with a fan that was taken over and not handed back
C03_AtExit ==
  proc \in {"exited", "crashed"} => \A f \in cf.fans : Taken(f) => ph[f] = "Done" /\ Restored(f)
\* a fan that is being regulated is only ever left through the restore sequence
C03_OnlyThroughRestore ==
  [][NewTrace \/ (\A f \in cf.fans : ph[f] = "Reg" /\ ph'[f] # "Reg" => ph'[f] = "Rest1" \/ proc' # "run" \/ proc # "run")]_dvars
\* a second and third signal change nothing
C03_SignalsAbsorbed == [][NewTrace \/ (sigs' > sigs /\ ctx = "cancelled" => UNCHANGED <<ph, pwm, mode, proc>>)]_dvars

\* ---- C09: faults never crash the daemon ----
C09_NoCrash == proc # "crashed"
C09_ContinueOrHandBack ==
  \A f \in cf.fans : reg[f] => (ph[f] = "Reg") \/ (ph[f] \in {"Rest1", "Rest2", "Rest3"})
                                 \/ (ph[f] = "Done" /\ Restored(f))

\* ---- C15: stored characterisation is reused ----
\* what was measured and stored is not measured again: no PWM sweep when a PWM map was stored (or
\* configured), no RPM-curve measurement when RPM curve data was stored
C15_Reuse ==
  \A f \in cf.fans : /\ (had[f].map => cnt[f].sweeps = 0)
                      /\ (had[f].data => cnt[f].meas = 0)
C15_ConfigMapNoSweep == \A f \in cf.fans : cf.cfgMap[f] => cnt[f].sweeps = 0
C15_AtMostOnce == \A f \in cf.fans : cnt[f].sweeps <= 1 /\ cnt[f].meas <= 1
\* the README's promise; the code does not implement it (known finding D10)
C15_ReadmeSkip == \A f \in cf.fans : cf.cfgMinMax[f] => cnt[f].meas = 0
\* stored data survives until the user discards it
C15_StoredUntilDiscarded ==
  [][NewTrace \/ (\A f \in cf.fans : (db[f].data /\ ~db'[f].data) \/ (db[f].map /\ ~db'[f].map) => discarded'[f])]_dvars

\* ---- C16: one analysis at a time ----
C16_OneAtATime == ~cf.parallel => Cardinality({f \in cf.fans : ana[f]}) <= 1
\* the whole initialisation sequence of a fan is covered, not only its sweeps
InSeq(f) == ph[f] \in {"Ana", "Sweep", "Mapped", "Meas", "MapRun"}
C16_SequencesDisjoint == ~cf.parallel => Cardinality({f \in cf.fans : InSeq(f)}) <= 1
C16_MutexHeld == ~cf.parallel => \A f \in cf.fans : InSeq(f) => mtx = f
\* non-vacuity (each must be violated): overlap is reachable when parallel
NV_NoOverlap == Cardinality({f \in cf.fans : ana[f]}) <= 1
NV_NoRestore == \A f \in cf.fans : ph[f] # "Rest3"
NV_NoModeBack == \A f \in cf.fans : ~(reg[f] /\ ph[f] = "Done" /\ pwm[f] # Full)
NV_NoSecondStart == starts < 2
NV_NoReuse == ~(\E f \in cf.fans : had[f].map /\ had[f].data /\ ph[f] = "Reg")
==============================================================================
