------------------------------ MODULE Monitor_Stall ------------------------------
(* C10 (and the floor of C02) on executions of the REAL controller.Run with its two             *)
(* goroutines - RPM monitor and control loop - running concurrently in a synctest bubble         *)
(* behind a plant that turns only above a threshold (or never).  Events: "Begin" (fans with      *)
(* window n, limits), "RpmEnd" (the reading the monitor just took), "CycleEnd" (request, error). *)
(* zeros counts consecutive RPM polls that read 0 since the request last changed.               *)
EXTENDS Integers, Sequences, Json, TLC, IOUtils

VARIABLES l, req, zeros, status, cfgf, raised, lastPoll, looping
vars == <<l, req, zeros, status, cfgf, raised, lastPoll, looping>>

Trace == ndJsonDeserialize(IOEnv.VERIF_TRACE)
N == Len(Trace)
Nil == -1
FanIds(fs) == {fs[i].id : i \in 1..Len(fs)}
FanOf(fs, id) == fs[CHOOSE i \in 1..Len(fs) : fs[i].id = id]

StateOf(e) ==
  /\ cfgf' = [f \in FanIds(e.fans) |-> FanOf(e.fans, f)]
  /\ req' = [f \in FanIds(e.fans) |-> Nil]
  /\ zeros' = [f \in FanIds(e.fans) |-> 0]
  /\ status' = [f \in FanIds(e.fans) |-> "run"]
  /\ raised' = [f \in FanIds(e.fans) |-> 0]
  /\ lastPoll' = [f \in FanIds(e.fans) |-> -1]
  /\ looping' = [f \in FanIds(e.fans) |-> FALSE]

Init == /\ Trace[1].ev = "Begin" /\ l = 2
        /\ cfgf = [f \in FanIds(Trace[1].fans) |-> FanOf(Trace[1].fans, f)]
        /\ req = [f \in FanIds(Trace[1].fans) |-> Nil]
        /\ zeros = [f \in FanIds(Trace[1].fans) |-> 0]
        /\ status = [f \in FanIds(Trace[1].fans) |-> "run"]
        /\ raised = [f \in FanIds(Trace[1].fans) |-> 0]
        /\ lastPoll = [f \in FanIds(Trace[1].fans) |-> -1]
        /\ looping = [f \in FanIds(Trace[1].fans) |-> FALSE]

Step(e) ==
  CASE e.ev = "Begin" -> StateOf(e)
    [] e.ev = "RpmEnd" /\ e.fan \in DOMAIN req ->
         /\ zeros' = [zeros EXCEPT ![e.fan] = IF e.rpm = 0 THEN @ + 1 ELSE 0]
         /\ lastPoll' = [lastPoll EXCEPT ![e.fan] = e.vt]
         /\ UNCHANGED <<req, status, cfgf, raised, looping>>
    [] e.ev = "CycleEnd" /\ e.fan \in DOMAIN req ->
         /\ req' = [req EXCEPT ![e.fan] = IF e.a[2] = 1 THEN @ ELSE e.a[1]]
         /\ status' = [status EXCEPT ![e.fan] = IF e.a[2] = 1 THEN "error" ELSE @]
         /\ zeros' = [zeros EXCEPT ![e.fan] = IF e.a[2] = 1 \/ e.a[1] # req[e.fan] THEN 0 ELSE @]
         /\ raised' = [raised EXCEPT ![e.fan] = IF e.a[2] = 0 /\ req[e.fan] # Nil /\ e.a[1] = req[e.fan] + 1 THEN @ + 1 ELSE @]
         /\ UNCHANGED <<cfgf, lastPoll, looping>>
    [] e.ev = "LoopStarted" /\ e.fan \in DOMAIN req ->
         /\ looping' = [looping EXCEPT ![e.fan] = TRUE]
         /\ lastPoll' = [lastPoll EXCEPT ![e.fan] = IF @ < 0 THEN e.vt ELSE @]
         /\ UNCHANGED <<req, zeros, status, cfgf, raised>>
    [] OTHER -> UNCHANGED <<req, zeros, status, cfgf, raised, lastPoll, looping>>

Next == l <= N /\ l' = l + 1 /\ Step(Trace[l])
Spec == Init /\ [][Next]_vars

Bound(f) == 12 * cfgf[f].n + 2
\* with the request unchanged and the fan reporting 0 RPM, the request is raised (or the stall
\* reported) within Bound polls - checked at every control cycle of a never-stop fan with RPM sensor
C10_BoundedResponseRun ==
  [][\A f \in DOMAIN req :
       (l <= N /\ Trace[l].ev = "CycleEnd" /\ Trace[l].fan = f /\ cfgf[f].neverStop /\ cfgf[f].hasRpm
          /\ status[f] = "run" /\ req[f] # Nil /\ zeros[f] > Bound(f))
       => (Trace[l].a[2] = 1 \/ Trace[l].a[1] # req[f])]_vars
\* the stall is only reported at the fan's maximum
C10_ErrorOnlyAtMaxRun ==
  [][\A f \in DOMAIN req : status[f] = "run" /\ status'[f] = "error" /\ cfgf[f].neverStop /\ cfgf[f].stallOnly
       => req[f] >= cfgf[f].max]_vars
\* requests of a never-stop fan never go below its minimum
C02_NeverBelowMinRun ==
  \A f \in DOMAIN req : cfgf[f].neverStop /\ req[f] # Nil => req[f] >= cfgf[f].min /\ req[f] <= cfgf[f].max

\* the RPM monitor of a fan with an RPM sensor is alive while the fan is regulated: at every control
\* cycle the latest RPM poll is at most three polling periods old (a monitor that was never started,
\* or that gave up, leaves a stalled fan unnoticed for ever)
C10_MonitorAlive ==
  [][\A f \in DOMAIN req :
       (l <= N /\ Trace[l].ev = "CycleEnd" /\ Trace[l].fan = f /\ cfgf[f].hasRpm /\ looping[f] /\ status[f] = "run")
       => Trace[l].vt - lastPoll[f] <= 3 * cfgf[f].rpmPollMs + 1000]_vars

\* the ladder is climbed to its end: when the time that suffices for all its steps is over (the driver's "budget" stop), a
\* never-stop fan that is still regulated has been brought to a request at which it turns (above the plant's threshold);
\* a fan that cannot turn at any allowed value has been reported (direct and rate-limited algorithms: the request settles
\* within a few cycles after every raise)
C10_LadderCompletes ==
  [][(l <= N /\ Trace[l].ev = "Cancel" /\ Trace[l].why = "budget") =>
       \A f \in DOMAIN req :
         (cfgf[f].neverStop /\ cfgf[f].hasRpm /\ cfgf[f].stallOnly /\ cfgf[f].algT \in {"direct", "rate"} /\ status[f] = "run" /\ looping[f])
           => (req[f] # Nil /\ req[f] > cfgf[f].theta)]_vars

Report == l = N + 1 => PrintT(<<"TRACE-DONE", N, "DRIFT", <<>>>>)
TraceAccepted == TLCGet("stats").diameter = N
==============================================================================
