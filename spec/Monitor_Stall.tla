------------------------------ MODULE Monitor_Stall ------------------------------
(* C10 (and the floor of C02) on executions of the REAL controller.Run with its two             *)
(* goroutines - RPM monitor and control loop - running concurrently in a synctest bubble         *)
(* behind a plant that turns only above a threshold (or never).  Events: "Begin" (fans with      *)
(* window n, limits), "RpmEnd" (the reading the monitor just took), "CycleEnd" (request, error). *)
(* zeros counts consecutive RPM polls that read 0 since the request last changed.               *)
EXTENDS Integers, Sequences, Json, TLC, IOUtils

VARIABLES l, req, zeros, status, cfgf, raised
vars == <<l, req, zeros, status, cfgf, raised>>

Trace == ndJsonDeserialize(IOEnv.VERIF_TRACE)
N == Len(Trace)
Nil == -1
FanIds(fs) == {fs[i].id : i \in 1..Len(fs)}
FanOf(fs, id) == fs[CHOOSE i \in 1..Len(fs) : fs[i].id = id]

StateOf(e) ==
  /\ cfgf' = [f \in FanIds(e.fans) |-> FanOf(e.fans, f)]
  /\ req' = [f \in FanIds(e.fans) |-> Nil]
  /\ zeros' = [f \in FanIds(e.fans) |-> 0]
  /\ status' = [f \in FanIds(e.fans) |-> "run"]
  /\ raised' = [f \in FanIds(e.fans) |-> 0]

Init == /\ Trace[1].ev = "Begin" /\ l = 2
        /\ cfgf = [f \in FanIds(Trace[1].fans) |-> FanOf(Trace[1].fans, f)]
        /\ req = [f \in FanIds(Trace[1].fans) |-> Nil]
        /\ zeros = [f \in FanIds(Trace[1].fans) |-> 0]
        /\ status = [f \in FanIds(Trace[1].fans) |-> "run"]
        /\ raised = [f \in FanIds(Trace[1].fans) |-> 0]

Step(e) ==
  CASE e.ev = "Begin" -> StateOf(e)
    [] e.ev = "RpmEnd" /\ e.fan \in DOMAIN req ->
         /\ zeros' = [zeros EXCEPT ![e.fan] = IF e.rpm = 0 THEN @ + 1 ELSE 0]
         /\ UNCHANGED <<req, status, cfgf, raised>>
    [] e.ev = "CycleEnd" /\ e.fan \in DOMAIN req ->
         /\ req' = [req EXCEPT ![e.fan] = IF e.a[2] = 1 THEN @ ELSE e.a[1]]
         /\ status' = [status EXCEPT ![e.fan] = IF e.a[2] = 1 THEN "error" ELSE @]
         /\ zeros' = [zeros EXCEPT ![e.fan] = IF e.a[2] = 1 \/ e.a[1] # req[e.fan] THEN 0 ELSE @]
         /\ raised' = [raised EXCEPT ![e.fan] = IF e.a[2] = 0 /\ req[e.fan] # Nil /\ e.a[1] = req[e.fan] + 1 THEN @ + 1 ELSE @]
         /\ UNCHANGED cfgf
    [] OTHER -> UNCHANGED <<req, zeros, status, cfgf, raised>>

Next == l <= N /\ l' = l + 1 /\ Step(Trace[l])
Spec == Init /\ [][Next]_vars

Bound(f) == 12 * cfgf[f].n + 2
\* with the request unchanged and the fan reporting 0 RPM, the request is raised (or the stall
\* reported) within Bound polls - checked at every control cycle of a never-stop fan with RPM sensor
C10_BoundedResponseRun ==
  [][\A f \in DOMAIN req :
       (l <= N /\ Trace[l].ev = "CycleEnd" /\ Trace[l].fan = f /\ cfgf[f].neverStop /\ cfgf[f].hasRpm
          /\ status[f] = "run" /\ req[f] # Nil /\ zeros[f] > Bound(f))
       => (Trace[l].a[2] = 1 \/ Trace[l].a[1] # req[f])]_vars
\* the stall is only reported at the fan's maximum
C10_ErrorOnlyAtMaxRun ==
  [][\A f \in DOMAIN req : status[f] = "run" /\ status'[f] = "error" /\ cfgf[f].neverStop /\ cfgf[f].stallOnly
       => req[f] >= cfgf[f].max]_vars
\* requests of a never-stop fan never go below its minimum
C02_NeverBelowMinRun ==
  \A f \in DOMAIN req : cfgf[f].neverStop /\ req[f] # Nil => req[f] >= cfgf[f].min /\ req[f] <= cfgf[f].max

Report == l = N + 1 => PrintT(<<"TRACE-DONE", N, "DRIFT", <<>>>>)
TraceAccepted == TLCGet("stats").diameter = N
==============================================================================
