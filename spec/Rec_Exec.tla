--------------------------------- MODULE Rec_Exec --------------------------------
(* Records of real external-command calls (harness TestDriveC18 / TestDriveC19)       *)
(* validated against Exec.tla.                                                        *)
EXTENDS ExecPerm, Integers, Json, TLC, IOUtils, Sequences

VARIABLE l
Recs == ndJsonDeserialize(IOEnv.VERIF_TRACE)
N == Len(Recs)
Init == l = 1
Next == l <= N /\ l' = l + 1
Spec == Init /\ [][Next]_l
Cur == Recs[l]
Has == l <= N
Is(t) == Has /\ Cur.ev = t

GW(mode) == (mode \div 16) % 2 = 1      \* 0o020
OW(mode) == (mode \div 2) % 2 = 1       \* 0o002
Ok(r) == Allowed(r.ownerRoot, r.groupRoot, GW(r.mode), OW(r.mode))

\* ---- C18 ----
OneExec(r) ==
  /\ ~r.panic
  /\ (r.executed => Ok(r))                       \* only root-controlled executables are ever run
  /\ (~Ok(r) => r.err /\ ~r.executed)            \* otherwise an error and nothing is executed
\* (that an allowed executable does run and succeeds is not part of the property - on a loaded machine a healthy command
\*  can fail - it is conformance with Exec.tla and the driver's non-vacuity count)
C18_AllowedRuns == Is("Exec") /\ Ok(Cur) /\ Cur.anyx => Cur.executed /\ ~Cur.err
C18_OnlyRootControlled == Is("Exec") => OneExec(Cur)
\* an executable named without a directory is found through $PATH: whatever runs must be root-controlled (a file of the
\* same name in the working directory is not what runs, its attributes must not decide)
C18_BareNameChecked == Is("ExecBare") => ~Cur.panic /\ (Cur.executed => Ok(Cur))
\* relative paths: only the examined file runs
C18_RelativeRunsChecked == Is("ExecRel") => ~Cur.panic /\ ~Cur.otherExecuted /\ (Cur.executed => Ok(Cur))
\* a busy file that turned unsafe before it could be started is never run
C18_BusyNotRun == Is("ExecBusy") => ~Cur.executed
\* every entry point (daemon, `fan2go sensor`, `fan2go fan`): nothing the configuration names is run unless the
\* configuration file itself is root-controlled
C18_CliConfigChecked == Is("CliExec") => (Cur.executed => Ok(Cur))
\* the check is repeated before every execution
C18_RecheckedEveryTime == Is("Exec2") => OneExec(Cur.first) /\ OneExec(Cur.second)
\* the configuration file is tested iff it declares a command sensor or fan
C18_ConfigFile == Is("CfgFile") => (Cur.err <=> (Cur.declares /\ ~Ok(Cur)))

\* ---- C19 ----
Margin == 1000                       \* ms
Timeouts == {200, 500, 1000, 2000}
C19_ReturnsInTimeObs == Is("Call") => Cur.dur <= Cur.timeout + Margin
C19_NoPanicObs == Is("Call") => Cur.outcome \in {"ok", "err"}
C19_TrimmedOutput == Is("Call") /\ Cur.outcome = "ok" => Cur.trimmed
\* conformance with the call machine of Exec.tla: which outcome each failure mode must have
WrapFail == {"garbage", "digits", "empty", "exit3", "errnonl", "okexit", "sleep", "blank", "crlf", "tab"}
MustFail == {"exit3", "exit1silent", "killed", "notExecutable", "badFormat", "missing", "badInterpreter",
             "sleepPastDeadline", "execSleep", "ignoresTerm", "hugeThenSleep",
             "stderrNoNewline", "stderrBlankLines", "stderrHuge", "stderrBinary", "killedWithStderr", "termSelf",
             "closesStdoutThenSleeps", "exit255",
             "symlinkLoop", "danglingSymlink", "parentIsFile", "nameTooLong", "directory", "emptyName"}
            \cup {pfx \o ":" \o m : pfx \in {"sensor", "fan.getPwm", "fan.getRpm"}, m \in WrapFail}
            \cup {"fan.setPwm:" \o m : m \in {"exit3", "errnonl", "okexit", "sleep"}} \cup {"fan.concurrent:sleep"}
MustSucceed == {"ok", "okTrim", "empty", "garbage", "huge", "okWithStderr", "okNoNewline", "readsStdin"}
               \cup {pfx \o ":ok" : pfx \in {"sensor", "fan.getPwm", "fan.getRpm", "fan.setPwm"}}
               \cup {"fan.setPwm:" \o m : m \in {"garbage", "digits", "empty", "nan", "blank", "crlf", "tab"}}
               \cup {"sensoravg:" \o m : m \in WrapFail \cup {"ok", "grandchild", "nan"}}
C19_Conforms == Is("Call") =>
  /\ (Cur.mode \in MustFail => Cur.outcome = "err")
  /\ (Cur.mode \in {"ok", "okWithStderr", "okNoNewline", "readsStdin", "sensor:ok", "fan.getPwm:ok", "fan.getRpm:ok"} /\ Cur.outcome = "ok" => Cur.sample = "42")
  /\ (Cur.mode = "okTrim" /\ Cur.outcome = "ok" => Cur.sample = " 17.5 ")
  \* "either the command's trimmed output or an error": a call that reports success hands over what the command printed,
  \* never an empty stand-in (a grandchild keeps the pipe open beyond the deadline: the output was complete long before)
  /\ (Cur.mode = "grandchildHoldsStdout" /\ Cur.outcome = "ok" => Cur.sample = "5")

\* conformance only (drift): a healthy command succeeds - on a heavily loaded machine it may not (pipes not closed within the
\* WaitDelay while the process forks a lot), and the property allows "an error"
C19_HealthySucceeds == Is("Call") /\ Cur.mode \in MustSucceed /\ Cur.timeout >= 1000 => Cur.outcome = "ok"
Report == l = N + 1 => PrintT(<<"TRACE-DONE", N, "DRIFT", <<>>>>)
TraceAccepted == TLCGet("stats").diameter = N + 1
==============================================================================
