-------------------------------- MODULE Rec_C13 -------------------------------
(* Records of the real fans.NewFan / AttachFanRpmCurveData / getters (harness        *)
(* TestDriveC13) validated against FanLimits.tla: conformance (the observed limits    *)
(* are those of the model's Attach) and the C13 formulas on the observed values.      *)
EXTENDS FanLimits, Json, TLC, IOUtils, Sequences

VARIABLE l
Recs == ndJsonDeserialize(IOEnv.VERIF_TRACE)
N == Len(Recs)
Init == l = 1
Next == l <= N /\ l' = l + 1
Spec == Init /\ [][Next]_l

DataOf(ps) == [k \in {ps[i][1] : i \in 1..Len(ps)} |-> LET i == CHOOSE j \in 1..Len(ps) : ps[j][1] = k IN ps[i][2]]
CfgOf(e) == [cmin |-> e.cmin, cstart |-> e.cstart, cmax |-> e.cmax, neverStop |-> e.neverStop]
Obs(x) == [gmin |-> x.gmin, start |-> x.start, max |-> x.max]

Cur == Recs[l]
D1 == DataOf(Cur.d1)
D2 == DataOf(Cur.d2)
C == CfgOf(Cur)
F0 == NewFan(C)
F1 == Attach(C, F0, D1)
F2 == Attach(C, F1, D2)
Has == l <= N

\* conformance with the model
C13_Conforms == Has =>
  /\ Obs(Cur.before) = View(C, F0)
  /\ Obs(Cur.after1) = View(C, F1) /\ Cur.err1 = Refused(D1)
  /\ (Cur.second => Obs(Cur.after2) = View(C, F2) /\ Cur.err2 = Refused(D2))
\* the property on the observed values alone
Judged(d, after) ==
  ~Refused(d) /\ NonZero(d) # {} =>
     /\ (C.cstart = NoVal => after.start = StartOf(d))
     /\ (C.cmax = NoVal => after.max = MaxOf(d))
Wins(after) ==
  /\ (C.cstart # NoVal => after.start = C.cstart)
  /\ (C.cmax # NoVal => after.max = C.cmax)
  /\ (C.cmin # NoVal /\ C.neverStop => after.gmin = C.cmin)
  /\ (~C.neverStop => after.gmin = 0)
C13_Derived == Has => Judged(D1, Cur.after1) /\ (Cur.second => Judged(D2, Cur.after2))
C13_ConfiguredWins == Has => Wins(Cur.before) /\ Wins(Cur.after1) /\ Wins(Cur.after2)
C13_Refuses == Has => /\ ~Cur.panic1
                      /\ (Refused(D1) => Cur.err1 /\ Obs(Cur.after1) = Obs(Cur.before))
                      /\ (Cur.second /\ Refused(D2) => Cur.err2 /\ Obs(Cur.after2) = Obs(Cur.after1))
                      /\ (~Refused(D1) => ~Cur.err1)

Report == l = N + 1 => PrintT(<<"TRACE-DONE", N, "DRIFT", <<>>>>)
TraceAccepted == TLCGet("stats").diameter = N + 1
==============================================================================
