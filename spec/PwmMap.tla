------------------------------- MODULE PwmMap --------------------------------
(* The PWM map ("requested value" -> "value the fan must be given") and the    *)
(* nearest-supported-input rule (util.ExtractKeysWithDistinctValues,           *)
(* util.FindClosest, controller.setPwm).  A map is a function from a finite    *)
(* set of integer keys to integers.                                            *)
EXTENDS Integers, FiniteSets, FiniteSetsExt, Sequences, SequencesExt, Numeric

Keys(m) == DOMAIN m

\* keys in increasing order
SortedKeys(m) == SetToSortSeq(Keys(m), LAMBDA a, b : a < b)

\* Supported inputs: the first key of every run of consecutive equal outputs
\* (in increasing key order).  (The code uses -1 as its "nothing seen yet" marker; maps
\* with negative outputs are outside the property's domain - outputs are PWM values.)
DistinctKeys(m) ==
  LET sk == SortedKeys(m)
  IN  { sk[i] : i \in { j \in 1..Len(sk) : j = 1 \/ m[sk[j]] # m[sk[j-1]] } }

\* linear-time maximum / minimum of a non-empty set of integers
MaxI(S) == FoldSet(LAMBDA x, a : IF x > a THEN x ELSE a, -1000000, S)
MinI(S) == FoldSet(LAMBDA x, a : IF x < a THEN x ELSE a, 1000000, S)

\* neighbours of req among the supported inputs ks (ks non-empty)
Below(req, ks) == { k \in ks : k <= req }
Above(req, ks) == { k \in ks : k >= req }

\* the set of nearest supported inputs (both neighbours when equidistant)
Nearest(req, ks) ==
  LET dn == Below(req, ks)
      up == Above(req, ks)
  IN  IF dn = {} THEN {MinI(up)}
      ELSE IF up = {} THEN {MaxI(dn)}
      ELSE LET d == MaxI(dn)
               u == MinI(up)
           IN  IF req - d < u - req THEN {d}
               ELSE IF req - d > u - req THEN {u}
               ELSE {d, u}

\* the definition in one line, used to cross-check the efficient form above
NearestDef(req, ks) == { k \in ks : \A o \in ks : Abs(k - req) <= Abs(o - req) }

\* what util.FindClosest returns: on a tie the larger neighbour
NearestCoded(req, ks) == MaxI(Nearest(req, ks))

\* value the fan is given for a request
WriteFor(m, req) == m[NearestCoded(req, DistinctKeys(m))]
WriteSetFor(m, req) == { m[k] : k \in Nearest(req, DistinctKeys(m)) }
\* the same with the supported inputs precomputed
WriteForK(m, ks, req) == m[NearestCoded(req, ks)]
WriteSetForK(m, ks, req) == { m[k] : k \in Nearest(req, ks) }

\* lookup tables over the request range 0..255, computed once per configuration
WriteTable(m, ks) == [r \in 0..P |-> WriteForK(m, ks, r)]
WriteSetTable(m, ks) == [r \in 0..P |-> WriteSetForK(m, ks, r)]

Identity == [k \in 0..P |-> k]
Quantiser(q) == [k \in 0..P |-> (k \div q) * q]
==============================================================================
