SPECIFICATION Spec
CONSTANTS
  Win = 3
  SensorIds <- SensorIdsMC
  CurveCfg <- CurveCfgMC
  FanCfg <- FanCfgMC
CHECK_DEADLOCK FALSE
INVARIANTS
  Sys_Range
  Sys_SharedAgree
  Sys_Fresh
PROPERTIES
  C07_EndToEnd
  Sys_Isolation
