SPECIFICATION Spec
CHECK_DEADLOCK FALSE
INVARIANTS
  Report
  G11_AlgorithmSelection
  G11_RateLimit
  G11_SensorSeed
POSTCONDITION TraceAccepted
