SPECIFICATION Spec
CHECK_DEADLOCK FALSE
INVARIANTS
  Report
  C17_BindsNamedDevice
  C17_FailsCleanly
  C17_NoCrash
POSTCONDITION TraceAccepted
