---------------------------------- MODULE Backend ---------------------------------
(* Start-up of the daemon beyond the listed properties (internal/backend.go):           *)
(*  - which control algorithm a fan entry gets (initializeFanControllers),               *)
(*  - how a sensor's moving average is seeded (initializeSensors).                       *)
(* A fan entry is abstracted to the spelling of its algorithm options:                   *)
(*   loop   "none" | "pid"       the deprecated `controlLoop` block (always PID gains)   *)
(*   alg    "none" | "direct" | "directLimit" | "pid" | "empty"                          *)
(*          (`controlAlgorithm: direct`, `{direct: {maxPwmChangePerCycle: m}}`,           *)
(*           `pid` / `{pid: {...}}`, or a mapping with neither key)                      *)
(* The result is the behaviour class of the loop: "direct", "rate", "pid" or "nil"       *)
(* (no loop object at all - the first control cycle dereferences nil).                   *)
EXTENDS Integers

AlgOf(loop, alg) ==
  IF loop = "pid" THEN "pid"                     \* the deprecated block wins
  ELSE CASE alg = "none" -> "pid"                \* default: PID with the default gains
         [] alg = "direct" -> "direct"
         [] alg = "directLimit" -> "rate"
         [] alg = "pid" -> "pid"
         [] alg = "empty" -> "nil"               \* as coded (a defect outside the listed properties)

\* the first read seeds the average; a failed first read seeds 0
SeedOf(readOk, value) == IF readOk THEN value ELSE 0
==============================================================================
