---------------------------------- MODULE Exec ---------------------------------
(* External commands (internal/util/exec.go SafeCmdExecution, internal/util/file.go   *)
(* CheckFilePermissionsForExecution).                                                 *)
(*                                                                                    *)
(* C18: the permission predicate, evaluated on the RESOLVED path before EVERY start.  *)
(* C19: one call as a small timed state machine over an abstract clock:               *)
(*   "check" -> ("err": refused) | "start" -> ("err": cannot be started)              *)
(*   | "run": the process runs until it exits on its own (after r ticks) or the       *)
(*   deadline (timeout t) kills it; Output() then waits until the output pipe is      *)
(*   closed - by the process and by every grandchild that inherited it (g ticks) -    *)
(*   but at most WaitDelay ticks after the deadline / the exit; then "ret".           *)
(* BugD14 (pre-fix behaviour): a start failure panics (unchecked type assertion)      *)
(* and there is no WaitDelay (the call blocks as long as a grandchild holds the pipe). *)
EXTENDS Integers, Numeric, ExecPerm

CONSTANTS BugD14, WaitDelay, MaxT


VARIABLES st,      \* "check" | "start" | "run" | "pipes" | "ret" | "panic"
          clock,   \* ticks since the call began
          par,     \* parameters of this call: [allowed, startable, r, g, t]
          procEnd, \* tick at which the process ended (exit or kill), -1 before
          result   \* "none" | "out" | "err"

evars == <<st, clock, par, procEnd, result>>

EInit(p) == st = "check" /\ clock = 0 /\ par = p /\ procEnd = -1 /\ result = "none"

Check == /\ st = "check"
         /\ IF par.allowed THEN st' = "start" /\ result' = result
                           ELSE st' = "ret" /\ result' = "err"
         /\ UNCHANGED <<clock, par, procEnd>>

Start == /\ st = "start"
         /\ IF par.startable THEN st' = "run" /\ result' = result
            ELSE IF BugD14 THEN st' = "panic" /\ result' = result
            ELSE st' = "ret" /\ result' = "err"
         /\ UNCHANGED <<clock, par, procEnd>>

Tick == /\ st \in {"run", "pipes"} /\ clock < MaxT
        /\ clock' = clock + 1
        /\ UNCHANGED <<st, par, procEnd, result>>

\* the process exits by itself after r ticks, or the deadline kills it after t ticks
ProcEnds == /\ st = "run" /\ (clock >= par.r \/ clock >= par.t)
            /\ st' = "pipes" /\ procEnd' = clock
            /\ UNCHANGED <<clock, par, result>>

\* Output() returns when the pipe is closed, or when WaitDelay has expired
PipeClosed == clock >= procEnd /\ clock >= par.g
DelayOver == ~BugD14 /\ clock >= procEnd + WaitDelay
Return == /\ st = "pipes" /\ (PipeClosed \/ DelayOver)
          /\ st' = "ret"
          /\ result' = IF par.r <= par.t /\ par.exit0 /\ PipeClosed /\ clock < par.t THEN "out" ELSE "err"
          /\ UNCHANGED <<clock, par, procEnd>>

ENext == Check \/ Start \/ ProcEnds \/ Return \/ (Tick /\ ~ENABLED Return /\ ~ENABLED ProcEnds)

\* ---- C19 ----
C19_NoPanic == st # "panic"
C19_ReturnsInTime == st \in {"run", "pipes"} => clock <= par.t + WaitDelay
C19_Result == st = "ret" => result \in {"out", "err"}
C19_NoOutputWithoutRun == st = "ret" /\ (~par.allowed \/ ~par.startable) => result = "err"
==============================================================================
