------------------------------ MODULE Trace_System ------------------------------
(* Executions of the REAL data path - sensors, curves, fans and controllers built by       *)
(* internal.InitializeObjects / initializeFanControllers from a configuration, driven in    *)
(* lock step: monitor.updateSensor for polls, controller.UpdateFanSpeed for cycles          *)
(* (harness TestDriveSystem) - validated against System.tla.                                *)
(* The variables of System are bound to what is observed: the sensor average as             *)
(* am = floor(avg * 1000) (1/1000 m-degree), every curve's CurrentValue(), every fan's PWM    *)
(* file.  Each event is checked for conformance with the System action it claims to be      *)
(* (evaluation of exactly the curves the fan uses on the current averages, request inside    *)
(* the fan's limits, everything else untouched); rejected steps are listed in `drift`.       *)
(* Verdict formulas: C06_SystemEval (what a cycle evaluates is the documented function of     *)
(* the current sensor state, compositionally) and C07_EndToEndObs.                           *)
EXTENDS System, Json, IOUtils, TLC

VARIABLES l, am, ok, drift
tvars == <<sysvars, l, am, ok, drift>>

Trace == ndJsonDeserialize(IOEnv.VERIF_TRACE)
N == Len(Trace)

FnOf(ps) == [k \in {ps[i][1] : i \in 1..Len(ps)} |-> LET i == CHOOSE j \in 1..Len(ps) : ps[j][1] = k IN ps[i][2]]
ById(xs, id) == xs[CHOOSE i \in 1..Len(xs) : xs[i].id = id]
Ids(xs) == {xs[i].id : i \in 1..Len(xs)}

CfgOf(e) ==
  [win |-> e.win,
   sensors |-> Ids(e.sensors),
   curves |-> [c \in Ids(e.curves) |->
                 LET x == ById(e.curves, c) IN
                 [t |-> x.t, sensor |-> x.sensor, mn |-> x.mn, mx |-> x.mx,
                  steps |-> IF x.t = "steps" THEN FnOf(x.steps) ELSE <<>>, fn |-> x.fn, members |-> x.members]],
   fans |-> [f \in Ids(e.fans) |-> LET x == ById(e.fans, f) IN [curve |-> x.curve, gmin |-> x.gmin, mx |-> x.mx]]]

\* observed average am (floor of avg*1000): the true average lies in [am/1000, (am+1)/1000)
LoOf(a) == a \div 1000
HiOf(a) == -((-(a + 1)) \div 1000)
LeafOk(c, a, v) ==
  LET lo == LoOf(a[CurveCfg[c].sensor])
      hi == HiOf(a[CurveCfg[c].sensor])
      A == IF CurveCfg[c].t = "lin" THEN LinMinMaxSet(lo, CurveCfg[c].mn, CurveCfg[c].mx) ELSE StepsSet(lo, CurveCfg[c].steps)
      B == IF CurveCfg[c].t = "lin" THEN LinMinMaxSet(hi, CurveCfg[c].mn, CurveCfg[c].mx) ELSE StepsSet(hi, CurveCfg[c].steps)
  IN  Between(v, A, B)

BindInit(e) ==
  /\ scf' = CfgOf(e)
  /\ am' = [s \in Ids(e.sensors) |-> ById(e.sensors, s).am]
  /\ savg' = [s \in Ids(e.sensors) |-> SNorm(ById(e.sensors, s).am, 1000)]
  /\ cval' = [c \in Ids(e.curves) |-> ById(e.curves, c).cur]
  /\ fpwm' = [f \in Ids(e.fans) |-> -1]
  /\ up' = [f \in Ids(e.fans) |-> FALSE]
  /\ fcv' = [f \in Ids(e.fans) |-> -1]
  /\ fsnap' = [f \in Ids(e.fans) |-> [s \in Ids(e.sensors) |-> SNorm(ById(e.sensors, s).am, 1000)]]
  /\ sact' = [a |-> "init"]
  /\ ok' = TRUE /\ drift' = drift

TInit ==
  /\ Trace[1].ev = "SysInit" /\ l = 2 /\ drift = <<>> /\ ok = TRUE
  /\ LET e == Trace[1] IN
     /\ scf = CfgOf(e)
     /\ am = [s \in Ids(e.sensors) |-> ById(e.sensors, s).am]
     /\ savg = [s \in Ids(e.sensors) |-> SNorm(ById(e.sensors, s).am, 1000)]
     /\ cval = [c \in Ids(e.curves) |-> ById(e.curves, c).cur]
     /\ fpwm = [f \in Ids(e.fans) |-> -1]
     /\ up = [f \in Ids(e.fans) |-> FALSE]
     /\ fcv = [f \in Ids(e.fans) |-> -1]
     /\ fsnap = [f \in Ids(e.fans) |-> [s \in Ids(e.sensors) |-> SNorm(ById(e.sensors, s).am, 1000)]]
     /\ sact = [a |-> "init"]

Note(good) == IF good \/ Len(drift) >= 5 THEN drift ELSE Append(drift, l)
\* the REST API (GET /sensor/, GET /curve/) queried right after the step serves exactly the state after the step
ApiOk(e, a, cv) ==
  /\ \A s \in SensorIds : ById(e.api.sensors, s).am = a[s]
  /\ \A c \in CurveIds : ById(e.api.curves, c).v = cv[c]

\* a poll of sensor e.s: e.fault = "" for a successful read of a value in [xlo, xhi] (1/1000 units)
StepPoll(e) ==
  /\ am' = [am EXCEPT ![e.s] = e.am]
  /\ savg' = [savg EXCEPT ![e.s] = SNorm(e.am, 1000)]
  \* "a temperature rise": the reading is certainly not below the true average (which is < (am+1)/1000)
  /\ up' = [f \in FanIds |-> up[f] /\ ((e.s \in SensorsOf(FanCfg[f].curve) /\ e.fault = "") => e.xlo >= am[e.s] + 1)]
  /\ sact' = IF e.fault = "" THEN [a |-> "poll", s |-> e.s, x |-> e.xlo] ELSE [a |-> "fail", s |-> e.s]
  /\ UNCHANGED <<scf, cval, fpwm, fcv, fsnap>>
  /\ ok' = TRUE
  \* conformance with System!Poll / PollFail on the projection (slack of the projection: 2 units)
  /\ drift' = Note(IF e.fault = ""
                     THEN /\ e.am >= am[e.s] + TruncDiv(e.xlo - am[e.s], Win) - 2
                          /\ e.am <= am[e.s] + TruncDiv(e.xhi - am[e.s], Win) + 2
                     ELSE e.am = am[e.s])
            \o (IF ApiOk(e, [am EXCEPT ![e.s] = e.am], cval) THEN <<>> ELSE IF Len(drift) >= 5 THEN <<>> ELSE <<l>>)

ValsOf(e) == [c \in CurveIds |-> ById(e.vals, c).v]
\* what the cycle of fan e.f evaluated is the documented function of the current sensor state
EvalOk(e) ==
  LET vals == ValsOf(e)
      root == FanCfg[e.f].curve
  IN  \A d \in Closure(root) :
        /\ vals[d] \in 0..P
        /\ IF CurveCfg[d].t = "fn"
             THEN vals[d] = Fn(CurveCfg[d].fn, [i \in 1..Len(CurveCfg[d].members) |-> vals[CurveCfg[d].members[i]]])
             ELSE LeafOk(d, am, vals[d])
StepCycle(e) ==
  LET vals == ValsOf(e) IN
  /\ cval' = vals
  /\ fpwm' = [f \in FanIds |-> ById(e.pwms, f).v]
  /\ fcv' = [fcv EXCEPT ![e.f] = vals[FanCfg[e.f].curve]]
  /\ fsnap' = [fsnap EXCEPT ![e.f] = savg]
  /\ up' = [up EXCEPT ![e.f] = TRUE]
  /\ sact' = [a |-> "cycle", f |-> e.f, cv |-> vals[FanCfg[e.f].curve]]
  /\ UNCHANGED <<scf, savg, am>>
  /\ ok' = (~e.err /\ EvalOk(e))
  \* conformance with System!FanCycle: request from the fan's curve inside the limits, the rest untouched
  /\ drift' = Note(/\ ~e.err
                   /\ ById(e.pwms, e.f).v \in RescaleSet(vals[FanCfg[e.f].curve], FanCfg[e.f].gmin, FanCfg[e.f].mx)
                   /\ \A g \in FanIds \ {e.f} : ById(e.pwms, g).v = fpwm[g] \/ fpwm[g] = -1
                   /\ \A d \in CurveIds \ Closure(FanCfg[e.f].curve) : vals[d] = cval[d]
                   /\ ApiOk(e, am, vals))

TNext == /\ l <= N /\ l' = l + 1
         /\ LET e == Trace[l] IN
            CASE e.ev = "SysInit" -> BindInit(e)
              [] e.ev = "Poll" -> StepPoll(e)
              [] e.ev = "Cyc" -> StepCycle(e)
TSpec == TInit /\ [][TNext]_tvars

\* ---- verdict formulas on the observed behaviour ----
C06_SystemEval == ok
NewTrace == sact'.a = "init"
C07_EndToEndObs ==
  [][NewTrace \/ (\A f \in FanIds : (sact'.a = "cycle" /\ sact'.f = f /\ up[f] /\ fpwm[f] >= 0 /\ MonotoneCurve(FanCfg[f].curve))
        => fpwm'[f] >= fpwm[f])]_tvars
\* (drift only) fans sharing a curve that saw the same sensor state were given the same value
Sys_SharedAgreeObs == Sys_SharedAgree

Report == l = N + 1 => PrintT(<<"TRACE-DONE", N, "DRIFT", drift>>)
TraceAccepted == TLCGet("stats").diameter = N
==============================================================================
