-------------------------------- MODULE HwmonBind --------------------------------
(* Binding of hwmon fan and sensor entries to devices (internal/hwmon/hwmon.go          *)
(* GetChips / GetFans / GetTempSensors / UpdateFanConfigFromHwMonControllers,           *)
(* internal/backend.go initializeSensors / initializeFans).                             *)
(* A device tree is a sequence of chips in ENUMERATION order; a chip is a record        *)
(* [name, fans, temps] with the set of fan channels that have an RPM input and the set  *)
(* of temperature numbers that have an input.  Selectors:                               *)
(*   fan:    [platform, index, rpmChannel, pwmChannel]   (0 = not given)                *)
(*   sensor: [platform, index]                                                          *)
(* A platform pattern selects the chips whose name matches; the property quantifies      *)
(* over patterns that match exactly one chip.                                           *)
EXTENDS Integers, Sequences, FiniteSets, PwmMap

NoDev == [err |-> TRUE]

Matching(tree, platform) == { i \in 1..Len(tree) : tree[i].name = platform }

\* k-th smallest element of a finite set of integers (k >= 1)
RECURSIVE Kth(_, _)
Kth(S, k) == IF k = 1 THEN MinI(S) ELSE Kth(S \ {MinI(S)}, k - 1)

\* the fan device selected by index (position among the chip's fans) or by rpm channel
FanChannel(chip, sel) ==
  IF sel.index > 0 THEN (IF sel.index <= Cardinality(chip.fans) THEN Kth(chip.fans, sel.index) ELSE 0)
  ELSE IF sel.rpmChannel \in chip.fans THEN sel.rpmChannel ELSE 0

BindFan(tree, sel) ==
  LET ms == Matching(tree, sel.platform) IN
  IF Cardinality(ms) # 1 THEN NoDev
  ELSE LET chip == tree[CHOOSE i \in ms : TRUE]
           ch == FanChannel(chip, sel)
       IN  IF ch = 0 THEN NoDev
           ELSE [err |-> FALSE, chip |-> chip.name, rpm |-> ch,
                 pwm |-> IF sel.pwmChannel > 0 THEN sel.pwmChannel ELSE ch]

BindSensor(tree, sel) ==
  LET ms == Matching(tree, sel.platform) IN
  IF Cardinality(ms) # 1 THEN NoDev
  ELSE LET chip == tree[CHOOSE i \in ms : TRUE]
       IN  IF sel.index >= 1 /\ sel.index <= Cardinality(chip.temps)
             THEN [err |-> FALSE, chip |-> chip.name, temp |-> Kth(chip.temps, sel.index)]
             ELSE NoDev

\* a permutation of the enumeration order leaves every binding unchanged
Permuted(tree, p) == [i \in 1..Len(tree) |-> tree[p[i]]]
==============================================================================
