--------------------------- MODULE ControllerProps ----------------------------
(* Properties C01, C02, C05 (and the per-cycle parts of C10) over the           *)
(* observable variables of Controller: the fan's registers, the request, the    *)
(* values written, the statistics counters.  The same formulas are checked by   *)
(* TLC on the model (MC_Controller) and on every recorded execution of the real *)
(* controller (Trace_Controller).                                               *)
EXTENDS Controller

VARIABLES
  touched,   \* history: a third party wrote the fan's PWM since the last cycle
  zeros,     \* history: consecutive RPM polls that read 0 since the request last changed
  ccv,       \* history: curve value of the latest cycle
  kc,        \* history: consecutive cycles with that same curve value (capped), 0 after a raise/error
  prevReq,   \* history: the request before the latest cycle
  spin       \* history: consecutive RPM polls that read at least 2 RPM (the fan is turning)

pvars == <<cvars, touched, zeros, ccv, kc, prevReq, spin>>

IsCycleOk == out.ev = "Cycle" /\ ~out.err
\* trace validation concatenates traces: a step into an "Init" state starts a new behaviour
Reset == out'.ev = "Init"

\* ---- C01 ----
C01_ReqWithinLimits == IsCycleOk => cfg.gmin <= out.req /\ out.req <= cfg.mx
C01_WriteIsMapOfNearest ==
  IsCycleOk /\ out.wrote # Nil => out.wrote \in WS(out.req)
C01_WriteIn0to255 ==
  IsCycleOk /\ out.wrote # Nil /\ (\A k \in DOMAIN cfg.map : cfg.map[k] \in 0..P)
     => out.wrote \in 0..P
\* the value is not written only when the fan already shows it
C01_SkipOnlyWhenEqual ==
  IsCycleOk /\ ~touched /\ out.wrote = Nil => cfg.hasPwm /\ pwm \in WS(out.req)

\* ---- C02 ----
\* never below the minimum; every raise (offset counts them) is permanent
C02_NeverBelowRaisedMin == IsCycleOk /\ cfg.neverStop => out.req >= cfg.gmin + offset
C02_OffsetNeverDrops == [][Reset \/ (offset' >= offset)]_pvars
C02_MinNeverDrops == [][Reset \/ (fanMin' + offset' >= fanMin + offset)]_pvars
\* at the moment of the raise the request is strictly higher than the stalled one
C02_RaiseStrictlyHigher ==
  [][Reset \/ (offset' > offset => (out'.ev = "Cycle" /\ ~out'.err /\ last # Nil /\ out'.req > last))]_pvars
\* a raise happens only for a stalled never-stop fan
C02_RaiseOnlyWhenStalled ==
  [][Reset \/ (offset' > offset => cfg.neverStop /\ cfg.hasRpm /\ AvgLt1)]_pvars

\* ---- C05 ----
\* (`touched` is still set after a cycle only when the cycle itself was disturbed - somebody wrote to the fan in the middle of
\*  it, or the device refused the write; the cycle after that one is held to the formula)
C05_Undone ==
  IsCycleOk /\ ~touched => /\ (cfg.hasMode /\ ~cfg.modeStuck => mode = Manual)   \* (a driver that ignores the mode write: the PWM value is still restored)
               /\ pwm \in WS(last)
               /\ last = out.req
\* a changed PWM value is counted, and nothing is counted while nobody else touches the fan
C05_Counted ==
  [][Reset \/ (out'.ev = "Cycle" =>
       /\ (cfg.hasPwm /\ last # Nil /\ pwm \notin WS(last) /\ ~out'.err     \* (a cycle that fails - curve not evaluable - may end before the comparison)
             => unexpected' = unexpected + 1)
       /\ (~touched => unexpected' = unexpected)
       /\ unexpected' \in {unexpected, unexpected + 1})]_pvars
C05_CounterOnlyInCycle == [][Reset \/ (out'.ev # "Cycle" => unexpected' = unexpected)]_pvars

\* ---- C10 (cycle level) ----
\* a stalled never-stop fan is pushed in the very cycle that sees the stall, or reported
C10_PushedOrReported ==
  [][Reset \/ (out'.ev = "Cycle" /\ cfg.neverStop /\ cfg.hasRpm /\ AvgLt1 /\ last # Nil /\ status = "Regulating"
       => \/ out'.err /\ status' = "ControlError"
          \/ ~out'.err /\ out'.req # last           \* request changed anyway
          \/ ~out'.err /\ offset' = offset + 1 /\ out'.req = last + 1)]_pvars
C10_ErrorOnlyAtMax ==
  [][Reset \/ (status' = "ControlError" /\ status = "Regulating" => last # Nil /\ last >= cfg.mx)]_pvars

\* ---- C04 ----
\* settle bound K(alg): a number of cycles that depends on the algorithm's settings only.
\* PID (default gains): measured on the exhaustive model MC_C04 per tick period.
KPidOf(dt) == IF dt <= 50 THEN 2500 ELSE 1200
KOf(alg) == CASE alg.t = "direct" -> 1
              [] alg.t = "rate" -> (P + alg.m - 1) \div alg.m + 1
              [] alg.t = "pid" -> KPidOf(alg.dt)
              [] OTHER -> 1000000
KCapOf(alg) == IF alg.t = "any" THEN 0 ELSE KOf(alg) + 3
\* steady value: what the direct algorithm requests for the curve value
DirectOf(cv) == Rescale(Clamp(cv, 0, P), cfg.gmin + offset, cfg.mx)
C04_Applies == cfg.alg.t # "any" /\ IsCycleOk /\ prevReq # Nil /\ kc > KOf(cfg.alg)
\* (i) settled after K cycles of constant curve value ...
C04_Settles == C04_Applies => out.req = prevReq
\* (ii) ... at the steady value of the direct algorithm (default PID: within one PWM step)
C04_SteadyValue ==
  C04_Applies => IF cfg.alg.t = "pid" THEN Abs(out.req - DirectOf(ccv)) <= 1
                 ELSE out.req \in RescaleSet(Clamp(ccv, 0, P), cfg.gmin + offset, cfg.mx)
\* (iii) rate limited: consecutive requests differ by at most the limit ...
C04_RateStep ==
  [][Reset \/ (cfg.alg.t = "rate" /\ out'.ev = "Cycle" /\ ~out'.err /\ last # Nil /\ offset' = offset
                 /\ loop.y # Nil
                => Abs(out'.req - last) <= cfg.alg.m)]_pvars
\* ... and move monotonically toward the steady value while the curve value stays the same
C04_RateMonotone ==
  [][Reset \/ (cfg.alg.t = "rate" /\ out'.ev = "Cycle" /\ ~out'.err /\ last # Nil /\ offset' = offset
                 /\ loop.y # Nil /\ out'.cv = ccv /\ kc >= 1
                => LET d == DirectOf(ccv)
                       \* (the float evaluation of an exactly integral target may come out one lower, Numeric!RescaleSet: a request
                       \*  that has reached d from above may still settle on d - 1)
                       floor == IF last = d /\ (d - 1) \in RescaleSet(Clamp(ccv, 0, P), cfg.gmin + offset, cfg.mx) THEN d - 1 ELSE last
                   IN
                   /\ (last <= d => out'.req >= floor /\ out'.req <= d)
                   /\ (last >= d - 1 => out'.req <= Max2(last, d) /\ out'.req >= d - 1))]_pvars
\* a fan that has been reporting rotation for long enough is never treated as stalled: the steady
\* value for curve 0 stays the fan's minimum (the average of window n exceeds 1 RPM after
\* n*ln(2) polls of at least 2 RPM; StallBound polls are plenty)
C04_NoRaiseWhileTurning ==
  [][Reset \/ (spin > 12 * cfg.n + 2 => offset' = offset /\ (status = "Regulating" => status' = "Regulating"))]_pvars
\* (iv) no wind-up: the PID integral stays bounded whatever the history (PWM*ms)
C04_NoWindup == cfg.alg.t = "pid" => Abs(loop.integ) <= 4000000

\* bounded response: with the request unchanged and the fan reporting 0 RPM, the request is
\* raised (or the stall reported) after at most StallBound polls.  The exponential average of
\* window n decays from A to below 1 within n*ln(A) polls; 12n+2 covers A up to 160000 RPM.
StallBound == 12 * cfg.n + 2
C10_BoundedResponse ==
  [][Reset \/ (out'.ev = "Cycle" /\ cfg.neverStop /\ cfg.hasRpm /\ last # Nil /\ status = "Regulating"
                 /\ zeros > StallBound
                => out'.err \/ out'.req # last)]_pvars

\* history-variable bookkeeping, conjoined to every action (after the action itself)
HCycle == /\ touched' = FALSE
          /\ zeros' = IF out'.err \/ out'.req # last THEN 0 ELSE zeros
          /\ spin' = spin
\* ... a cycle whose PWM write the device refused leaves the fan at a value fan2go did not intend: the next cycle may count
\* it ("no third-party change is counted while nothing else touches the fan AND ITS WRITES SUCCEED")
HCycleW(wfail) == /\ touched' = wfail
                  /\ zeros' = IF out'.err \/ out'.req # last THEN 0 ELSE zeros
                  /\ spin' = spin
HRpm(r) == /\ touched' = touched
           /\ zeros' = IF r = 0 THEN zeros + 1 ELSE 0
           /\ spin' = IF r >= 2 THEN spin + 1 ELSE 0
HPoke(p) == /\ touched' = (touched \/ p # pwm)
            /\ zeros' = zeros /\ spin' = spin

\* C04 history; H4Cycle after the action itself, H4Keep for every other action
H4Cycle == /\ ccv' = out'.cv
           /\ prevReq' = last
           /\ kc' = IF out'.err \/ out'.raised THEN 0
                   ELSE IF out'.cv # ccv THEN 1
                   ELSE Min2(kc + 1, KCapOf(cfg.alg))
H4Keep == UNCHANGED <<ccv, kc, prevReq>>
H4Init == ccv = Nil /\ kc = 0 /\ prevReq = Nil
==============================================================================
