--------------------------- MODULE ControllerProps ----------------------------
(* Properties C01, C02, C05 (and the per-cycle parts of C10) over the           *)
(* observable variables of Controller: the fan's registers, the request, the    *)
(* values written, the statistics counters.  The same formulas are checked by   *)
(* TLC on the model (MC_Controller) and on every recorded execution of the real *)
(* controller (Trace_Controller).                                               *)
EXTENDS Controller

VARIABLES
  touched,   \* history: a third party wrote the fan's PWM since the last cycle
  zeros      \* history: consecutive RPM polls that read 0 since the request last changed

pvars == <<cvars, touched, zeros>>

IsCycleOk == out.ev = "Cycle" /\ ~out.err
\* trace validation concatenates traces: a step into an "Init" state starts a new behaviour
Reset == out'.ev = "Init"

\* ---- C01 ----
C01_ReqWithinLimits == IsCycleOk => cfg.gmin <= out.req /\ out.req <= cfg.mx
C01_WriteIsMapOfNearest ==
  IsCycleOk /\ out.wrote # Nil => out.wrote \in WS(out.req)
C01_WriteIn0to255 ==
  IsCycleOk /\ out.wrote # Nil /\ (\A k \in DOMAIN cfg.map : cfg.map[k] \in 0..P)
     => out.wrote \in 0..P
\* the value is not written only when the fan already shows it
C01_SkipOnlyWhenEqual ==
  IsCycleOk /\ out.wrote = Nil => cfg.hasPwm /\ pwm \in WS(out.req)

\* ---- C02 ----
\* never below the minimum; every raise (offset counts them) is permanent
C02_NeverBelowRaisedMin == IsCycleOk /\ cfg.neverStop => out.req >= cfg.gmin + offset
C02_OffsetNeverDrops == [][Reset \/ (offset' >= offset)]_pvars
C02_MinNeverDrops == [][Reset \/ (fanMin' + offset' >= fanMin + offset)]_pvars
\* at the moment of the raise the request is strictly higher than the stalled one
C02_RaiseStrictlyHigher ==
  [][Reset \/ (offset' > offset => (out'.ev = "Cycle" /\ ~out'.err /\ last # Nil /\ out'.req > last))]_pvars
\* a raise happens only for a stalled never-stop fan
C02_RaiseOnlyWhenStalled ==
  [][Reset \/ (offset' > offset => cfg.neverStop /\ cfg.hasRpm /\ AvgLt1)]_pvars

\* ---- C05 ----
C05_Undone ==
  IsCycleOk => /\ (cfg.hasMode => mode = Manual)
               /\ pwm \in WS(last)
               /\ last = out.req
\* a changed PWM value is counted, and nothing is counted while nobody else touches the fan
C05_Counted ==
  [][Reset \/ (out'.ev = "Cycle" =>
       /\ (cfg.hasPwm /\ last # Nil /\ pwm \notin WS(last)
             => unexpected' = unexpected + 1)
       /\ (~touched => unexpected' = unexpected)
       /\ unexpected' \in {unexpected, unexpected + 1})]_pvars
C05_CounterOnlyInCycle == [][Reset \/ (out'.ev # "Cycle" => unexpected' = unexpected)]_pvars

\* ---- C10 (cycle level) ----
\* a stalled never-stop fan is pushed in the very cycle that sees the stall, or reported
C10_PushedOrReported ==
  [][Reset \/ (out'.ev = "Cycle" /\ cfg.neverStop /\ cfg.hasRpm /\ AvgLt1 /\ last # Nil /\ status = "Regulating"
       => \/ out'.err /\ status' = "ControlError"
          \/ ~out'.err /\ out'.req # last           \* request changed anyway
          \/ ~out'.err /\ offset' = offset + 1 /\ out'.req = last + 1)]_pvars
C10_ErrorOnlyAtMax ==
  [][Reset \/ (status' = "ControlError" /\ status = "Regulating" => last # Nil /\ last >= cfg.mx)]_pvars

\* bounded response: with the request unchanged and the fan reporting 0 RPM, the request is
\* raised (or the stall reported) after at most StallBound polls.  The exponential average of
\* window n decays from A to below 1 within n*ln(A) polls; 12n+2 covers A up to 160000 RPM.
StallBound == 12 * cfg.n + 2
C10_BoundedResponse ==
  [][Reset \/ (out'.ev = "Cycle" /\ cfg.neverStop /\ cfg.hasRpm /\ last # Nil /\ status = "Regulating"
                 /\ zeros > StallBound
                => out'.err \/ out'.req # last)]_pvars

\* history-variable bookkeeping, conjoined to every action (after the action itself)
HCycle == /\ touched' = FALSE
          /\ zeros' = IF out'.err \/ out'.req # last THEN 0 ELSE zeros
HRpm(r) == /\ touched' = touched
           /\ zeros' = IF r = 0 THEN zeros + 1 ELSE 0
HPoke(p) == /\ touched' = (touched \/ p # pwm)
            /\ zeros' = zeros
==============================================================================
