SPECIFICATION Spec
CHECK_DEADLOCK FALSE
INVARIANTS
  Report
  C18_OnlyRootControlled
  C18_RecheckedEveryTime
  C18_ConfigFile
  C19_ReturnsInTimeObs
  C19_NoPanicObs
  C19_TrimmedOutput
  C19_Conforms
POSTCONDITION TraceAccepted
