SPECIFICATION Spec
CHECK_DEADLOCK FALSE
INVARIANTS
  Report
  C06_Linear
  C06_Steps
  C06_LinearAnyFloat
  C06_StepsAnyFloat
  C06_Graph
  C06_Pid
  C06_PidRange
  C07_LinearMonotone
  C07_StepsMonotone
  C07_GraphMonotone
  C07_CtlMonotone
POSTCONDITION TraceAccepted
