SPECIFICATION Spec
CHECK_DEADLOCK FALSE
INVARIANTS
  Report
  C02_NeverBelowMinRun
PROPERTIES
  C10_BoundedResponseRun
  C10_ErrorOnlyAtMaxRun
POSTCONDITION TraceAccepted
