--------------------------------- MODULE Rec_C11 ---------------------------------
(* Records of generated configurations taken through the real path YAML -> loader ->    *)
(* validator -> instantiate -> evaluate (harness TestDriveC11), checked against          *)
(* Config.tla.  Lines come in pairs: "Cfg" (the abstract configuration that was          *)
(* rendered to YAML) followed by "CfgEnd" (what the real code did with it).              *)
EXTENDS Config, Json, TLC, IOUtils

VARIABLE l
Recs == ndJsonDeserialize(IOEnv.VERIF_TRACE)
N == Len(Recs)
Init == l = 1
Next == l <= N /\ l' = l + 1
Spec == Init /\ [][Next]_l
Has == l <= N /\ Recs[l].ev = "CfgEnd" /\ l > 1 /\ Recs[l - 1].ev = "Cfg" /\ Recs[l - 1].idx = Recs[l].idx
C == Recs[l - 1]
R == Recs[l]
Crashed == R.ran \in {"crash", "timeout"}         \* recorded by the parent: the process died / hung
Accepted == IF Crashed THEN TRUE ELSE R.accepted   \* instantiation/evaluation only happens after acceptance

\* a configuration that validates is well-formed ...
C11_AcceptedIsWellFormed == Has /\ Accepted => WellFormed(C)
\* ... and can be run: instantiated and every curve evaluated without a crash or endless recursion
C11_AcceptedRuns == Has /\ Accepted => R.ran = "ok"
\* every configuration assembled only from documented forms is accepted
AllOk == /\ \A i \in 1..Len(C.sensors) : C.sensors[i].hwOk
         /\ \A i \in 1..Len(C.fans) : C.fans[i].algOk /\ C.fans[i].hwOk
         /\ \A i \in 1..Len(C.curves) : C.curves[i].pidOk
C11_DocumentedIsAccepted == Has /\ ~Crashed /\ Documented(C) /\ AllOk => R.accepted
\* conformance with the model of the validator
C11_ConformsValidator == Has /\ ~Crashed => (R.accepted <=> Validate(C))

\* ---- process level: `fan2go config validate` (exit status) and the real daemon on the same file (TestDriveC11Proc) ----
HasProc == l <= N /\ Recs[l].ev = "Proc" /\ l > 1 /\ Recs[l - 1].ev = "Cfg" /\ Recs[l - 1].idx = Recs[l].idx
\* what the validation command accepts, the daemon regulates with: every fan's controller started and the process lives on
C11_ValidatedStarts == HasProc /\ R.cli = 0 => R.daemon = "running" /\ R.captured = R.nfans
\* conformance (drift): the command decides as the model of the validator does; a rejected file makes the daemon decline
G11_CliConformsValidator == HasProc => (R.cli = 0 <=> Validate(C))
G11_RejectedRefused == HasProc /\ R.cli # 0 => R.daemon \in {"refused", "fatal"}

Report == l = N + 1 => PrintT(<<"TRACE-DONE", N, "DRIFT", <<>>>>)
TraceAccepted == TLCGet("stats").diameter = N + 1
==============================================================================
