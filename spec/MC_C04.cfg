SPECIFICATION Spec
CONSTANTS
  BugD1 = FALSE
  BugD2 = FALSE
  BugD4 = FALSE
  Algs <- AlgsStatelessQuick
  CSet <- CQuick
  StartSet <- CQuick
  Lims <- LimsQuick
  ProbeX = 100000
CHECK_DEADLOCK FALSE
INVARIANTS
  C04_Settles
  C04_SteadyValue
  C04_SteadyEnds
  C04_NoWindup
  C01_ReqWithinLimits
PROPERTIES
  C04_RateStep
  C04_RateMonotone
