--------------------------- MODULE Trace_Controller ---------------------------
(* Validation of executions recorded from the REAL controller (harness/ctl.go)  *)
(* against Controller.tla, and evaluation of the properties of ControllerProps  *)
(* on every observed state.                                                     *)
(*                                                                              *)
(* The trace file (ndjson, env VERIF_TRACE) is a concatenation of traces; each  *)
(* trace starts with an "Init" event.  Every event carries the complete         *)
(* projected state after the action, so                                         *)
(*   - monitoring: the variables are bound to the logged values at every step   *)
(*     and TLC evaluates the property formulas on the OBSERVED behaviour;       *)
(*   - conformance: for every step the specification's action is evaluated on   *)
(*     (state before, logged state after); the first lines that are not steps   *)
(*     of the specification are collected in "drift" and reported.              *)
(* The search is linear in the length of the file (one successor per state).    *)
EXTENDS ControllerProps, Json, TLC, IOUtils

VARIABLES l, drift

tvars == <<pvars, l, drift>>

Trace == ndJsonDeserialize(IOEnv.VERIF_TRACE)
N == Len(Trace)

MapOf(ps) == [k \in {ps[i][1] : i \in 1..Len(ps)} |->
                 LET i == CHOOSE j \in 1..Len(ps) : ps[j][1] = k IN ps[i][2]]

NormRat(num, den) == LET g == GCD(num, den) IN IF g = 0 THEN Rat(0, 1) ELSE Rat(num \div g, den \div g)
AvgOf(m) == NormRat(m, 1000)

AlgOf(a) == IF a.t = "rate" THEN [t |-> "rate", m |-> a.m]
            ELSE IF a.t = "pid" /\ a.def /\ a.dt \in PidTicks THEN [t |-> "pid", dt |-> a.dt]
            ELSE IF a.t = "direct" THEN [t |-> "direct"]
            ELSE [t |-> "any"]

CfgOf(e) ==
  LET m  == MapOf(e.map)
      ks == DistinctKeys(m)
  IN  [kind |-> e.kind, neverStop |-> e.neverStop, hasRpm |-> e.hasRpm, hasPwm |-> e.hasPwm,
       hasMode |-> e.hasMode, gmin |-> e.gmin, mx |-> e.mx, map |-> m, keys |-> ks,
       wf |-> WriteTable(m, ks), ws |-> WriteSetTable(m, ks), n |-> e.n, alg |-> AlgOf(e.alg),
       \* the driver ignores writes of the control mode (it keeps reporting the mode it had)
       modeStuck |-> IF "modeStuck" \in DOMAIN e THEN e.modeStuck ELSE FALSE]

InitFrom(e) ==
  /\ cfg = CfgOf(e)
  /\ fanMin = e.gmin
  /\ offset = 0
  /\ last = Nil
  /\ pwm = e.pwm
  /\ mode = e.mode
  /\ avg = AvgOf(e.avgm)
  /\ unexpected = 0
  /\ status = "Regulating"
  /\ loop = LoopInit
  /\ out = [ev |-> "Init"]
  /\ touched = FALSE
  /\ zeros = 0 /\ spin = 0
  /\ H4Init

TraceInit ==
  /\ Trace[1].ev = "Init"
  /\ InitFrom(Trace[1])
  /\ l = 2
  /\ drift = <<>>

Note(ok) == IF ok \/ Len(drift) >= 5 THEN drift ELSE Append(drift, l)

\* a new trace begins: all variables are re-initialised
StepInit(e) ==
  /\ cfg' = CfgOf(e) /\ fanMin' = e.gmin /\ offset' = 0 /\ last' = Nil /\ pwm' = e.pwm
  /\ mode' = e.mode /\ avg' = AvgOf(e.avgm) /\ unexpected' = 0 /\ status' = "Regulating"
  /\ loop' = LoopInit /\ out' = [ev |-> "Init"] /\ touched' = FALSE /\ zeros' = 0 /\ spin' = 0
  /\ ccv' = Nil /\ kc' = 0 /\ prevReq' = Nil
  /\ drift' = drift

\* --- Cycle -------------------------------------------------------------------
\* Loop state after the cycle: taken from the model when the algorithm is modelled exactly
LoopAfter(e) ==
  IF cfg.alg.t = "pid"
    THEN [PidNext(loop, e.lt, e.lc, e.dt) EXCEPT !.y = Clamp(e.lo, 0, P)]
    ELSE [loop EXCEPT !.y = Clamp(e.lo, 0, P)]

\* conformance of the recorded control-loop call with ControlLoop.tla
LoopConforms(e) ==
  /\ e.lcalls = 1
  /\ e.lt = e.cv
  /\ e.lc = LoopCur
  /\ cfg.alg.t # "any" => e.lo \in LoopOutSet(cfg.alg, loop, e.lt, e.lc, e.dt)

\* The Prometheus collectors (internal/statistics) are observations of the modelled state: a scrape
\* right after the cycle shows the controller's counters and the fan's PWM register.
MetricsConform(e) ==
  e.metrics.n = 0 \/ ( /\ e.metrics.unexpected = e.unexpected
                       /\ e.metrics.raises = e.offset
                       /\ e.metrics.offset = e.offset
                       /\ e.metrics.pwm = e.pwm )

\* the driver made the curve evaluation fail (environment input "cfail"): the cycle is the code's named no-op - an error,
\* no control-loop call, nothing written, nothing counted
CurveFailConforms(e) ==
  /\ avg = AvgOf(e.avgm)
  /\ e.err /\ e.lcalls = 0 /\ e.nw = 0 /\ e.mw = <<>>
  /\ e.offset = offset /\ e.last = last /\ e.pwm = pwm /\ e.unexpected = unexpected /\ e.raises = e.offset

StepCycle(e) ==
  LET raised == e.offset > offset
      t      == IF e.err THEN last ELSE IF raised THEN e.req - 1 ELSE e.req
  IN
  \* monitoring: bind the observed state
  /\ cfg' = cfg
  /\ fanMin' = e.gmin
  /\ offset' = e.offset
  /\ last' = e.last
  /\ pwm' = e.pwm
  /\ mode' = e.mode
  /\ avg' = AvgOf(e.avgm2)
  /\ unexpected' = e.unexpected
  /\ status' = IF e.err THEN "ControlError" ELSE status
  /\ loop' = LoopAfter(e)
  \* (a cycle during which somebody else wrote to the fan - "raced" - or whose PWM write the device refused - "wfail" - leaves the registers in a state fan2go did not choose: `touched` stays set after it, which exempts that cycle from the formulas about the registers (C05_Undone, C01_SkipOnlyWhenEqual); its decisions are judged like any other cycle's)
  /\ out' = [ev |-> "Cycle", cv |-> e.cv, req |-> e.req, err |-> e.err, wrote |-> e.wrote,
             raised |-> raised, tp |-> e.unexpected - unexpected]
  /\ HCycleW(e.wfail \/ e.raced) /\ H4Cycle
  \* conformance: is (this state, the observed next state) a step of the specification?
  /\ drift' = Note(IF e.cfail THEN CurveFailConforms(e) ELSE
                   /\ avg = AvgOf(e.avgm)
                   /\ MetricsConform(e)
                   /\ LoopConforms(e)
                   /\ e.nw <= 1
                   /\ e.raises = e.offset
                   /\ CycleEnvT(e.cv, e.lo, LoopAfter(e), t, e.wfail, e.raced))

\* --- measureRpm --------------------------------------------------------------
\* exact rational smoothing step against the logged floor(avg*1000), see Controller!AvgStep
RpmConforms(e) ==
  /\ cfg.hasRpm
  /\ avg = AvgOf(e.avgm)
  /\ IF cfg.kind = "hwmon"
       THEN LET lo == (e.avgm * (cfg.n - 1) + 1000 * e.r) \div cfg.n
                hi == ((e.avgm + 1) * (cfg.n - 1) + 1000 * e.r) \div cfg.n
            IN  e.avgm2 >= lo - 1 /\ e.avgm2 <= hi + 1
       ELSE IF e.ok THEN e.avgm2 = 1000 * e.r
            ELSE LET x == TruncDiv((e.avgm \div 1000) * (cfg.n - 1), cfg.n)
                 IN  e.avgm2 \in {1000 * x, 1000 * (x - 1)}

StepRpm(e) ==
  /\ avg' = AvgOf(e.avgm2)
  /\ out' = [ev |-> "Rpm", r |-> e.r, ok |-> e.ok]
  /\ HRpm(e.r) /\ H4Keep
  /\ UNCHANGED <<cfg, fanMin, offset, last, pwm, mode, unexpected, status, loop>>
  /\ drift' = Note(RpmConforms(e))

\* the driver sets the average directly (abstract measurement of the exhaustive model)
StepSetAvg(e) ==
  /\ avg' = AvgOf(e.avgm2)
  /\ out' = [ev |-> "Rpm", r |-> 0, ok |-> TRUE]
  /\ touched' = touched /\ zeros' = 0 /\ spin' = 0 /\ H4Keep
  /\ UNCHANGED <<cfg, fanMin, offset, last, pwm, mode, unexpected, status, loop>>
  /\ drift' = drift

StepPoke(e) ==
  /\ ThirdParty(e.mode, e.pwm)
  /\ HPoke(e.pwm) /\ H4Keep
  /\ drift' = drift

TraceNext ==
  /\ l <= N
  /\ l' = l + 1
  /\ LET e == Trace[l] IN
       CASE e.ev = "Init"   -> StepInit(e)
         [] e.ev = "Cycle"  -> StepCycle(e)
         [] e.ev = "Rpm"    -> StepRpm(e)
         [] e.ev = "SetAvg" -> StepSetAvg(e)
         [] e.ev = "Poke"   -> StepPoke(e)

TraceSpec == TraceInit /\ [][TraceNext]_tvars

\* reporting: printed once, in the last state
\* the limits the controller works with are the configured ones where the configuration gives them (hwmon fans:
\* maxPwm always, minPwm for never-stop fans) - "the fan's minimum / maximum" of C01 and C02 is what the user wrote
InitLimitsOk(e) ==
  e.kind = "hwmon" =>
    /\ (e.cfgMax >= 0 => e.mx = e.cfgMax)
    /\ (e.cfgMin >= 0 /\ e.neverStop => e.gmin = e.cfgMin)
C01_ConfiguredLimits ==
  /\ (l = 2 => InitLimitsOk(Trace[1]))
  /\ (l <= N /\ Trace[l].ev = "Init" => InitLimitsOk(Trace[l]))

\* what a counterexample shows of a state: everything but the configuration tables (a trace file has hundreds of thousands
\* of lines, and TLC prints the behaviour from the first one)
TAlias == [l |-> l, out |-> out, last |-> last, offset |-> offset, fanMin |-> fanMin, pwm |-> pwm, mode |-> mode, avg |-> avg,
           unexpected |-> unexpected, status |-> status, loop |-> loop, touched |-> touched, zeros |-> zeros, spin |-> spin,
           ccv |-> ccv, kc |-> kc, prevReq |-> prevReq, alg |-> cfg.alg, gmin |-> cfg.gmin, mx |-> cfg.mx, drift |-> drift]

Report == l = N + 1 => PrintT(<<"TRACE-DONE", N, "DRIFT", drift>>)
TraceAccepted == TLCGet("stats").diameter = N
==============================================================================
