--------------------------------- MODULE MC_Cli ---------------------------------
EXTENDS Cli
VARIABLE r
Regs == [kind : {"hwmon", "file"}, pwm : {0, 77, 255}, mode : {0, 1, 2, 5}, rpm : {0, 1200}, hasRpm : BOOLEAN]
Args == {"0", "1", "2", "3", "disabled", "pwm", "auto", "turbo", "Auto"}
Init == r \in Regs
\* any sequence of commands
Next == \/ \E v \in {0, 100, 255, 300} : r' = SpeedSet(r, v).regs
        \/ \E a \in Args : r' = ModeSet(r, a).regs
        \/ r' = SpeedGet(r).regs
Spec == Init /\ [][Next]_r
G_ReadOnly == ReadOnly(r)
G_WriteLocal == \A v \in {0, 100, 255, 300}, a \in Args : WriteLocal(r, v, a)
G_KindNeverChanges == [][r'.kind = r.kind /\ r'.hasRpm = r.hasRpm /\ r'.rpm = r.rpm]_r
==============================================================================
