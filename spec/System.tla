--------------------------------- MODULE System --------------------------------
(* The data path of the daemon as ONE state machine: sensor monitors smooth readings    *)
(* (Smoothing.tla), curves turn smoothed temperatures into 0..255 (Curves.tla), fan      *)
(* controllers turn the value of "their" curve into a PWM request inside the fan's        *)
(* limits and write it (Controller.tla; here: direct algorithm, identity PWM map, no      *)
(* RPM sensor, so that the request is a pure function of the curve value).                *)
(* What the composition adds to the three specifications:                                 *)
(*  - WIRING: a fan cycle evaluates exactly the curves reachable from the fan's curve,    *)
(*    leaves read the CURRENT average of THEIR sensor, every other curve value and every  *)
(*    other fan is untouched;                                                             *)
(*  - END TO END monotonicity (last clause of C07): a temperature rise alone - polls       *)
(*    whose readings are not below the current average - can never lower the PWM a fan     *)
(*    is given;                                                                           *)
(*  - two fans that share a curve and cycle on the same sensor state get the same value.   *)
(* Actions correspond to code: Poll/PollFail = monitor.updateSensor, FanCycle =            *)
(* controller.UpdateFanSpeed (calculateTargetPwm -> curve.Evaluate (recursive) -> setPwm). *)
EXTENDS Curves

\* the configuration is a variable that no action changes (one trace file holds runs of many configurations):
\*   scf.win      tempRollingWindowSize
\*   scf.sensors  set of sensor ids
\*   scf.curves   curve id -> [t: "lin"|"steps"|"fn", sensor, mn, mx, steps, fn, members (sequence of ids)]
\*   scf.fans     fan id -> [curve, gmin, mx]
VARIABLES scf,
          savg,   \* sensor -> rational [num, den] (milli-degrees)
          cval,   \* curve -> last evaluated value (CurrentValue, what API and metrics show)
          fpwm,   \* fan -> PWM last written (-1: none yet)
          up,     \* fan -> TRUE while every poll since the fan's last cycle was a rise (history)
          fcv,    \* fan -> curve value its last cycle used (-1: none yet)
          fsnap,  \* fan -> sensor state its last cycle saw (history)
          sact    \* last action (observation)

sysvars == <<scf, savg, cval, fpwm, up, fcv, fsnap, sact>>

Win == scf.win
SensorIds == scf.sensors
CurveCfg == scf.curves
FanCfg == scf.fans
CurveIds == DOMAIN CurveCfg
FanIds == DOMAIN FanCfg

SRat(a, b) == [num |-> a, den |-> b]
SNorm(a, b) == LET g == GCD(a, b) IN IF g = 0 THEN SRat(0, 1) ELSE SRat(a \div g, b \div g)
\* util.UpdateSimpleMovingAvg: avg + (x - avg) / n   (same formula as Smoothing!Step)
SmoothStep(a, x) == SNorm(a.num * (Win - 1) + x * a.den, a.den * Win)
FloorOf(a) == a.num \div a.den                 \* den > 0: TLA+ \div rounds toward minus infinity
CeilOf(a) == -((-a.num) \div a.den)

\* ---- curve evaluation on a sensor state (deterministic representative of the envelope) ----
Between(v, A, B) == v >= MinI(A \cup B) /\ v <= MaxI(A \cup B)
LeafSet(c, avgs) ==
  LET a == avgs[CurveCfg[c].sensor]
      lo == FloorOf(a)
      hi == CeilOf(a)
      A == IF CurveCfg[c].t = "lin" THEN LinMinMaxSet(lo, CurveCfg[c].mn, CurveCfg[c].mx) ELSE StepsSet(lo, CurveCfg[c].steps)
      B == IF CurveCfg[c].t = "lin" THEN LinMinMaxSet(hi, CurveCfg[c].mn, CurveCfg[c].mx) ELSE StepsSet(hi, CurveCfg[c].steps)
  IN  MinI(A \cup B)..MaxI(A \cup B)
RECURSIVE Val(_, _)
Val(c, avgs) ==
  IF CurveCfg[c].t = "fn"
    THEN Fn(CurveCfg[c].fn, [i \in 1..Len(CurveCfg[c].members) |-> Val(CurveCfg[c].members[i], avgs)])
    ELSE MaxI(LeafSet(c, avgs))
RECURSIVE Closure(_)
Closure(c) == IF CurveCfg[c].t = "fn"
                THEN {c} \cup UNION {Closure(CurveCfg[c].members[i]) : i \in 1..Len(CurveCfg[c].members)}
                ELSE {c}
SensorsOf(c) == {CurveCfg[d].sensor : d \in {d \in Closure(c) : CurveCfg[d].t # "fn"}}

\* request of the direct algorithm for curve value v, fan limits gmin..mx, identity map
Req(f, v) == Rescale(v, FanCfg[f].gmin, FanCfg[f].mx)

SysInit(c, avg0) ==
  /\ scf = c
  /\ savg = [s \in c.sensors |-> SRat(avg0[s], 1)]
  /\ cval = [d \in DOMAIN c.curves |-> 0]
  /\ fpwm = [f \in DOMAIN c.fans |-> -1]
  /\ up = [f \in DOMAIN c.fans |-> FALSE]
  /\ fcv = [f \in DOMAIN c.fans |-> -1]
  /\ fsnap = [f \in DOMAIN c.fans |-> [s \in c.sensors |-> SRat(avg0[s], 1)]]
  /\ sact = [a |-> "init"]

Poll(s, x) ==
  /\ savg' = [savg EXCEPT ![s] = SmoothStep(@, x)]
  \* a reading below the current average ends the "temperatures only rose" stretch of the fans that use s
  /\ up' = [f \in FanIds |-> up[f] /\ (s \in SensorsOf(FanCfg[f].curve) => x * savg[s].den >= savg[s].num)]
  /\ sact' = [a |-> "poll", s |-> s, x |-> x]
  /\ UNCHANGED <<scf, cval, fpwm, fcv, fsnap>>

PollFail(s) ==
  /\ sact' = [a |-> "fail", s |-> s]
  /\ UNCHANGED <<scf, savg, cval, fpwm, up, fcv, fsnap>>

FanCycle(f) ==
  LET c == FanCfg[f].curve IN
  /\ cval' = [d \in CurveIds |-> IF d \in Closure(c) THEN Val(d, savg) ELSE cval[d]]
  /\ fpwm' = [fpwm EXCEPT ![f] = Req(f, Val(c, savg))]
  /\ up' = [up EXCEPT ![f] = TRUE]
  /\ fcv' = [fcv EXCEPT ![f] = Val(c, savg)]
  /\ fsnap' = [fsnap EXCEPT ![f] = savg]
  /\ sact' = [a |-> "cycle", f |-> f, cv |-> Val(c, savg)]
  /\ UNCHANGED <<scf, savg>>

\* ---- properties of the composition ----------------------------------------------
MonotoneCurve(c) == \A d \in Closure(c) :
   CASE CurveCfg[d].t = "fn"    -> CurveCfg[d].fn \in MonotoneFnTypes
     [] CurveCfg[d].t = "steps" -> \A a, b \in DOMAIN CurveCfg[d].steps : a <= b => CurveCfg[d].steps[a] <= CurveCfg[d].steps[b]
     [] OTHER -> TRUE

Sys_Range == /\ \A c \in CurveIds : cval[c] \in 0..P
             /\ \A f \in FanIds : fpwm[f] = -1 \/ (fpwm[f] >= FanCfg[f].gmin /\ fpwm[f] <= FanCfg[f].mx)
\* C07, last clause: a temperature rise alone never lowers a fan's PWM
C07_EndToEnd ==
  [][\A f \in FanIds : (sact'.a = "cycle" /\ sact'.f = f /\ up[f] /\ fpwm[f] >= 0 /\ MonotoneCurve(FanCfg[f].curve))
        => fpwm'[f] >= fpwm[f]]_sysvars
\* a cycle of one fan leaves the other fans and the curves it does not use alone
Sys_Isolation ==
  [][\A f \in FanIds : (sact'.a = "cycle" /\ sact'.f = f) =>
        /\ \A g \in FanIds \ {f} : fpwm'[g] = fpwm[g]
        /\ \A d \in CurveIds \ Closure(FanCfg[f].curve) : cval'[d] = cval[d]]_sysvars
\* fans sharing a curve that cycled on the same sensor state were given the same curve value
Sys_SharedAgree ==
  \A f, g \in FanIds : (FanCfg[f].curve = FanCfg[g].curve /\ fcv[f] >= 0 /\ fcv[g] >= 0 /\ fsnap[f] = fsnap[g]) => fcv[f] = fcv[g]
\* the value a cycle used is the value of the fan's curve on the sensor state of that moment, and it is what CurrentValue shows
Sys_Fresh == sact.a = "cycle" => sact.cv = Val(FanCfg[sact.f].curve, savg) /\ cval[FanCfg[sact.f].curve] = sact.cv
==============================================================================
