SPECIFICATION Spec
CONSTANTS
  BugD1 = FALSE
  BugD2 = FALSE
  BugD4 = FALSE
  Tier = "quick"
CONSTRAINT Explore
CHECK_DEADLOCK FALSE
INVARIANTS
  C10_Terminates
  C02_NeverBelowRaisedMin
PROPERTIES
  C10_BoundedResponse
  C10_PushedOrReported
  C10_ErrorOnlyAtMax
  C10_ReportedAtMax
  C02_RaiseStrictlyHigher
