SPECIFICATION Spec
CONSTANTS
  BugD14 = FALSE
  WaitDelay = 1
  MaxT = 25
CHECK_DEADLOCK FALSE
INVARIANTS
  C19_NoPanic
  C19_ReturnsInTime
  C19_Result
  C19_NoOutputWithoutRun
  C18_Definition
