SPECIFICATION Spec
CHECK_DEADLOCK FALSE
INVARIANTS
  C12_NearestDef
  C12_Exact
  C12_Extremes
