---------------------------- MODULE MC_Controller -----------------------------
(* Exhaustive model: every history of (loop output, RPM class, third-party      *)
(* write) for a set of fan configurations, explored to closure of the finite    *)
(* reachable graph.  The control algorithm is abstracted to an arbitrary loop   *)
(* output (alg "any"): C01/C02/C05 must not depend on it.  The RPM average is   *)
(* abstracted to the three classes that the cycle distinguishes.                *)
EXTENDS ControllerProps, TLC

CONSTANTS Tier

SparseMap == (0 :> 0) @@ (64 :> 128) @@ (192 :> 255)

Limits == IF Tier = "quick"
            THEN {<<0, 255>>, <<0, 0>>, <<100, 101>>, <<250, 255>>}
            ELSE {<<0, 255>>, <<0, 0>>, <<255, 255>>, <<30, 200>>, <<100, 101>>, <<0, 128>>,
                  <<250, 255>>, <<200, 255>>}

LoSet == IF Tier = "quick"
           THEN {-300, 0, 1, 127, 128, 254, 255, 1000}
           ELSE {-300, -1, 256, 1000} \cup {v \in 0..255 : v % 8 = 0 \/ v \in {1, 2, 3, 127, 129, 253, 254, 255}}

PokeSet == IF Tier = "quick" THEN {<<2, 0>>, <<1, 77>>, <<0, 255>>}
           ELSE {<<2, 0>>, <<1, 77>>, <<0, 255>>, <<3, 128>>}

MapOfId(id) == CASE id = "identity" -> Identity [] id = "sparse" -> SparseMap [] id = "quant32" -> Quantiser(32)
MapIds == {"identity", "sparse", "quant32"}

CfgsOf(k, lims) ==
  { [kind |-> k, neverStop |-> ns, hasRpm |-> hr, hasPwm |-> TRUE, hasMode |-> (k = "hwmon"), modeStuck |-> FALSE,
     gmin |-> IF ns /\ k = "hwmon" THEN lim[1] ELSE 0, mx |-> IF k = "hwmon" THEN lim[2] ELSE P,
     map |-> MapOfId(mi), keys |-> DistinctKeys(MapOfId(mi)),
     wf |-> WriteTable(MapOfId(mi), DistinctKeys(MapOfId(mi))),
     ws |-> WriteSetTable(MapOfId(mi), DistinctKeys(MapOfId(mi))), n |-> 2, alg |-> [t |-> "any"],
     mapid |-> mi, lim |-> lim]
    : ns \in BOOLEAN, hr \in BOOLEAN, mi \in MapIds, lim \in lims }

\* file (and cmd) fans have fixed limits 0..255
Cfgs == CfgsOf("hwmon", Limits) \cup CfgsOf("file", {<<0, 255>>})

AvgClasses == {Rat(0, 1), Rat(1, 1), Rat(5, 1)}

Init == \E c \in Cfgs, p0 \in {0, 77}, a0 \in AvgClasses :
          /\ CInit(c, p0, IF c.hasMode THEN 2 ELSE 1, a0)
          /\ touched = FALSE
          /\ zeros = 0 /\ spin = 0 /\ H4Init

MeasureAbs(a) ==
  /\ cfg.hasRpm
  /\ avg' = a
  /\ out' = [ev |-> "Rpm", r |-> 0, ok |-> TRUE]
  /\ UNCHANGED <<cfg, fanMin, offset, last, pwm, mode, unexpected, status, loop>>

Next ==
  \/ \E lo \in LoSet : CycleExact(0, lo, loop) /\ HCycle /\ H4Keep
  \/ \E a \in AvgClasses : MeasureAbs(a) /\ touched' = touched /\ zeros' = 0 /\ spin' = 0 /\ H4Keep
  \/ \E pk \in PokeSet : status = "Regulating" /\ ThirdParty(pk[1], pk[2]) /\ HPoke(pk[2]) /\ H4Keep

Spec == Init /\ [][Next]_pvars

\* output-only and unbounded counters are hidden from the state fingerprint
View == <<cfg, fanMin, offset, last, pwm, mode, avg, status, touched, out>>  \* zeros is constant 0 here

\* reachability (non-vacuity) probes: each must be VIOLATED as an invariant
NV_NoRaise == offset = 0
NV_NoError == status = "Regulating"
NV_NoCount == unexpected = 0
==============================================================================
