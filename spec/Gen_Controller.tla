---------------------------- MODULE Gen_Controller ----------------------------
(* Model -> code: behaviours of MC_Controller with the sequence of environment   *)
(* inputs carried in a history variable and printed as JSON when the target      *)
(* depth is reached (tlc -simulate).  The harness replays every schedule on the  *)
(* real controller (TestReplayController); the recorded trace is then validated  *)
(* by Trace_Controller like any other.                                           *)
EXTENDS MC_Controller, Json

CONSTANT Depth
VARIABLE inp

gvars == <<pvars, inp>>

GInit == \E c \in Cfgs, p0 \in {0, 77}, a0 \in AvgClasses :
          /\ CInit(c, p0, IF c.hasMode THEN 2 ELSE 1, a0)
          /\ touched = FALSE
          /\ zeros = 0 /\ spin = 0 /\ H4Init
          /\ inp = <<[a |-> "Init", kind |-> c.kind, neverStop |-> c.neverStop, hasRpm |-> c.hasRpm,
                      mn |-> c.lim[1], mx |-> c.lim[2], mapid |-> c.mapid,
                      pwm |-> p0, mode |-> IF c.hasMode THEN 2 ELSE 1, avg |-> a0.num]>>

GNext ==
  /\ Len(inp) < Depth
  /\ \/ \E lo \in LoSet : CycleExact(0, lo, loop) /\ HCycle /\ H4Keep /\ inp' = Append(inp, [a |-> "Cycle", lo |-> lo])
     \/ \E a \in AvgClasses : MeasureAbs(a) /\ touched' = touched /\ zeros' = 0 /\ spin' = 0 /\ H4Keep /\ inp' = Append(inp, [a |-> "Avg", v |-> a.num])
     \/ \E pk \in PokeSet : status = "Regulating" /\ ThirdParty(pk[1], pk[2]) /\ HPoke(pk[2]) /\ H4Keep
                            /\ inp' = Append(inp, [a |-> "Poke", mode |-> pk[1], pwm |-> pk[2]])

GSpec == GInit /\ [][GNext]_gvars

Emit == Len(inp) = Depth => PrintT(<<"SCHED", ToJson(inp)>>)
==============================================================================
