--------------------------------- MODULE Rec_Cli ---------------------------------
(* Records of the REAL command line (this test binary re-executed into cmd.Execute, one    *)
(* process per command, on a fake hwmon tree and a file fan) validated against Cli.tla.     *)
EXTENDS Cli, Json, TLC, IOUtils, Sequences
VARIABLE l
Recs == ndJsonDeserialize(IOEnv.VERIF_TRACE)
N == Len(Recs)
Init == l = 1
Next == l <= N /\ l' = l + 1
Spec == Init /\ [][Next]_l
Cur == Recs[l]
Has == l <= N
Expected(e) ==
  CASE e.cmd = "speedGet" -> SpeedGet(e.before)
    [] e.cmd = "speedSet" -> SpeedSet(e.before, e.v)
    [] e.cmd = "modeGet"  -> ModeGet(e.before)
    [] e.cmd = "modeSet"  -> ModeSet(e.before, e.arg)
    [] e.cmd = "rpmGet"   -> RpmGet(e.before)
    [] e.cmd = "sensorGet" -> SensorGet(e.before)
G_CliConforms == Has /\ Cur.ev = "Cli" =>
  LET x == Expected(Cur) IN
  /\ Cur.after = x.regs
  /\ (Cur.exit = 0) = (x.exit = 0)
  /\ (x.exit = 0 /\ x.value >= 0 => Cur.value = x.value)
Report == l = N + 1 => PrintT(<<"TRACE-DONE", N, "DRIFT", <<>>>>)
TraceAccepted == TLCGet("stats").diameter = N + 1
==============================================================================
