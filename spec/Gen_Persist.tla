------------------------------- MODULE Gen_Persist -------------------------------
(* Model -> code for C14: behaviours of Persist.tla (without crashes) with the sequence of     *)
(* operations carried in a history variable and printed as JSON at the target depth            *)
(* (tlc -simulate); replayed on the real persistence by harness TestReplayC14.                 *)
EXTENDS Persist, Sequences, Json, TLC
CONSTANT Depth
VARIABLE ops
gvars == <<pvars, ops>>
GInit == PInit /\ ops = <<>>
GNext == /\ Len(ops) < Depth
         /\ \E k \in Kinds, f \in FanIds :
              \/ Load(k, f) /\ ops' = Append(ops, [op |-> "load", k |-> k, f |-> f, v |-> ""])
              \/ Delete(k, f) /\ ops' = Append(ops, [op |-> "delete", k |-> k, f |-> f, v |-> ""])
              \/ Damage(k, f) /\ ops' = Append(ops, [op |-> "damage", k |-> k, f |-> f, v |-> ""])
              \/ \E v \in Values : Save(k, f, v) /\ ops' = Append(ops, [op |-> "save", k |-> k, f |-> f, v |-> v])
GSpec == GInit /\ [][GNext]_gvars
Emit == Len(ops) = Depth => PrintT(<<"SCHED", ToJson(ops)>>)
==============================================================================
