--------------------------------- MODULE Persist --------------------------------
(* The database of fan characterisations (internal/persistence/persistence.go): two    *)
(* kinds of entries per fan id - "data" (RPM curve) and "map" (PWM map).  Every         *)
(* operation opens the bbolt file, runs one transaction and closes it again, so         *)
(* "reopen" and "another process" are the same thing as the next operation.             *)
(* Values are opaque tokens; Corrupt stands for bytes that cannot be decoded.           *)
EXTENDS Integers, FiniteSets

CONSTANTS Kinds, FanIds, Values

None == "none"
Corrupt == "corrupt"

VARIABLES store,   \* [Kinds \X FanIds -> Values \cup {None, Corrupt}]
          pout     \* observation of the last operation

pvars == <<store, pout>>

PInit == store = [e \in Kinds \X FanIds |-> None] /\ pout = [op |-> "init"]

Save(k, f, v) ==
  /\ store' = [store EXCEPT ![<<k, f>>] = v]
  /\ pout' = [op |-> "save", k |-> k, f |-> f, v |-> v, res |-> "ok"]

\* load: the stored value | not found | an undecodable entry is discarded (deleted) and
\* reported as "nothing there" without an error
Load(k, f) ==
  LET cur == store[<<k, f>>] IN
  /\ store' = IF cur = Corrupt THEN [store EXCEPT ![<<k, f>>] = None] ELSE store
  /\ pout' = [op |-> "load", k |-> k, f |-> f, v |-> cur,
              res |-> IF cur = None THEN "notfound" ELSE IF cur = Corrupt THEN "discarded" ELSE "found"]

Delete(k, f) ==
  /\ store' = [store EXCEPT ![<<k, f>>] = None]
  /\ pout' = [op |-> "delete", k |-> k, f |-> f, v |-> None, res |-> "ok"]

\* environment: the stored bytes of an entry are damaged
Damage(k, f) ==
  /\ store[<<k, f>>] # None
  /\ store' = [store EXCEPT ![<<k, f>>] = Corrupt]
  /\ pout' = [op |-> "damage", k |-> k, f |-> f, v |-> Corrupt, res |-> "ok"]

\* the process is killed during a save: the save took effect entirely or not at all
CrashDuringSave(k, f, v) ==
  /\ \E w \in {store[<<k, f>>], v} : store' = [store EXCEPT ![<<k, f>>] = w]
  /\ pout' = [op |-> "crashsave", k |-> k, f |-> f, v |-> v, res |-> "killed"]

PNext == \E k \in Kinds, f \in FanIds :
            \/ Load(k, f) \/ Delete(k, f) \/ Damage(k, f)
            \/ \E v \in Values : Save(k, f, v) \/ CrashDuringSave(k, f, v)

\* ---- C14 ----
\* an operation on one entry never changes any other entry
C14_Isolation ==
  [][pout'.op \in {"save", "load", "delete", "damage", "crashsave"} =>
        \A e \in Kinds \X FanIds : e # <<pout'.k, pout'.f>> => store'[e] = store[e]]_pvars
\* a load returns what was stored last (by a save that completed), "not found" for a missing entry
C14_LoadReturnsStored ==
  [][pout'.op = "load" =>
        /\ pout'.v = store[<<pout'.k, pout'.f>>]
        /\ (store[<<pout'.k, pout'.f>>] \in Values => pout'.res = "found" /\ store' = store)
        /\ (store[<<pout'.k, pout'.f>>] = None => pout'.res = "notfound" /\ store' = store)]_pvars
\* an undecodable entry is discarded by the load that meets it: later loads report "not found"
C14_CorruptDiscarded ==
  [][pout'.op = "load" /\ store[<<pout'.k, pout'.f>>] = Corrupt =>
        pout'.res = "discarded" /\ store'[<<pout'.k, pout'.f>>] = None]_pvars
C14_DeleteIdempotent ==
  [][pout'.op = "delete" => store'[<<pout'.k, pout'.f>>] = None /\ pout'.res = "ok"]_pvars
C14_CrashAtomic ==
  [][pout'.op = "crashsave" => store'[<<pout'.k, pout'.f>>] \in {store[<<pout'.k, pout'.f>>], pout'.v}]_pvars
C14_TypeOK == store \in [Kinds \X FanIds -> Values \cup {None, Corrupt}]
==============================================================================
