SPECIFICATION TSpec
CONSTANTS
  MaxSignals = 3
  Outcomes = {"ok", "fail", "ign"}
  Outcomes3 = {"ok", "fail", "ign"}
  OrigModes = {2}
  OrigPwms = {77}
  MaxFaults = 1000000
  MaxStarts = 1000000
  SkipInitWhenMinMax = FALSE
CHECK_DEADLOCK FALSE
CONSTRAINT Mark
POSTCONDITION Accepted
