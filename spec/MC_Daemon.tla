------------------------------ MODULE MC_Daemon -------------------------------
(* Exhaustive configurations of Daemon.tla (one cfg per property family); the     *)
(* properties are in DaemonProps.                                                 *)
EXTENDS DaemonProps

CONSTANTS Fans, Kind, HasMode, HasRpm, CfgMap, CfgMinMax, Parallel

Conf == [fans |-> Fans, kind |-> Kind, hasMode |-> HasMode, hasRpm |-> HasRpm, cfgMap |-> CfgMap,
         cfgMinMax |-> CfgMinMax, parallel |-> Parallel]
DSpec == DInit(Conf) /\ [][DNext]_dvars

\* ---- constant values -------------------------------------------------------
F1 == {"f1"}
F2 == {"f1", "f2"}
F3 == {"f1", "f2", "f3"}
KindHw == [f \in F3 |-> "hwmon"]
KindMixed == ("f1" :> "hwmon") @@ ("f2" :> "file") @@ ("f3" :> "hwmon")
KindFile == [f \in F3 |-> "file"]
AllTrue == [f \in F3 |-> TRUE]
AllFalse == [f \in F3 |-> FALSE]
ModeMixed == ("f1" :> TRUE) @@ ("f2" :> FALSE) @@ ("f3" :> TRUE)
RpmMixed == ("f1" :> TRUE) @@ ("f2" :> FALSE) @@ ("f3" :> TRUE)
CfgMapMixed == ("f1" :> FALSE) @@ ("f2" :> TRUE) @@ ("f3" :> FALSE)
CfgMapF1 == ("f1" :> TRUE) @@ ("f2" :> FALSE) @@ ("f3" :> FALSE)
OutAll == {"ok", "fail", "ign"}
OutOk == {"ok"}
Modes4 == {0, 1, 2, 5}
Pwms3 == {0, 77, 255}
Pwms2 == {77, 255}

==============================================================================
