----------------------------- MODULE MC_FanLimits -----------------------------
(* C13 on the definition: all data maps over a small universe, all eight            *)
(* configured/unset combinations, neverStop on/off, repeated attachment.             *)
EXTENDS FanLimits, TLC

VARIABLES c, f, lastd, n

vars == <<c, f, lastd, n>>

KeysU == {0, 40, 255}
RpmU == {0, 10, 2009, 15005}
DataSets == UNION { [S -> RpmU] : S \in SUBSET KeysU }
Cfgs == { [cmin |-> a, cstart |-> b, cmax |-> m, neverStop |-> ns] :
            a \in {NoVal, 30}, b \in {NoVal, 60, 255}, m \in {NoVal, 200}, ns \in BOOLEAN }

Init == c \in Cfgs /\ f = NewFan(c) /\ lastd = << >> /\ n = 0
Next == /\ n < 2
        /\ \E d \in DataSets : f' = Attach(c, f, d) /\ lastd' = d
        /\ n' = n + 1 /\ c' = c
Spec == Init /\ [][Next]_vars

v == View(c, f)
C13_ConfiguredWins ==
  /\ c.cstart # NoVal => v.start = c.cstart
  /\ c.cmax # NoVal => v.max = c.cmax
  /\ c.cmin # NoVal /\ c.neverStop => v.gmin = c.cmin
C13_MinZeroUnlessNeverStop == ~c.neverStop => v.gmin = 0
\* every attachment is judged on its own data
C13_Derived ==
  n > 0 /\ ~Refused(lastd) /\ NonZero(lastd) # {} =>
     /\ (c.cstart = NoVal => v.start = StartOf(lastd))
     /\ (c.cmax = NoVal => v.max = MaxOf(lastd))
C13_RefusalKeeps == [][Refused(lastd') => f' = f]_vars
\* facts of the definition
C13_Def ==
  n > 0 /\ ~Refused(lastd) /\ NonZero(lastd) # {} =>
     /\ StartOf(lastd) \in DOMAIN lastd /\ Whole(lastd[StartOf(lastd)]) > 0
     /\ \A p \in DOMAIN lastd : p < StartOf(lastd) => Whole(lastd[p]) = 0
     /\ MaxOf(lastd) \in DOMAIN lastd /\ \A p \in DOMAIN lastd : Whole(lastd[p]) <= Whole(lastd[MaxOf(lastd)])
     /\ \A p \in DOMAIN lastd : p < MaxOf(lastd) => Whole(lastd[p]) < Whole(lastd[MaxOf(lastd)])
     /\ StartOf(lastd) <= MaxOf(lastd)
==============================================================================
