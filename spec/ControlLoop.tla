------------------------------ MODULE ControlLoop -----------------------------
(* The control algorithms of internal/control_loop (direct.go, pid.go) and      *)
(* internal/util/pid.go in exact integer / rational arithmetic.                 *)
(*                                                                              *)
(* PID with the default gains P = 3/10, I = 1/50, D = 1/200 and a tick of dt ms *)
(* (dt divides 250000, which covers 50, 100, 200, 250, 500, 1000, 2000 ms):     *)
(*   integral (in PWM*ms)      integ' = integ + err*dt                          *)
(*   output  = 3/10*err + 1/50*integ'/1000 + 1/200*(err-perr)*1000/dt           *)
(*           = (15000*err + integ' + (err-perr)*(250000/dt)) / 50000            *)
(*   result  = round(clamp(cur + output, 0, 255))                               *)
(* All intermediate values stay below 2^31 as long as |integ| < 10^9.           *)
EXTENDS Integers, Numeric

LoopNil == -1
LoopInit == [y |-> LoopNil, integ |-> 0, perr |-> 0, started |-> FALSE]

PidDen == 50000
PidTicks == {1, 2, 4, 5, 8, 10, 16, 20, 25, 40, 50, 80, 100, 125, 200, 250, 400, 500, 625,
             1000, 1250, 2000, 2500, 5000}

\* numerator of cur + output over PidDen
PidNum(st, err, cur, dt) ==
  cur * PidDen + 15000 * err + (st.integ + err * dt) + (err - st.perr) * (250000 \div dt)

\* the set of admissible results (two at an exact rounding tie, where float may go either way)
PidOutSet(st, target, cur, dt) ==
  LET err == target - cur
  IN  IF ~st.started THEN {Clamp(cur, 0, P)}
      ELSE IF dt = 0 THEN   \* derivative = x/0: +Inf -> 255, -Inf -> 0, NaN -> int(NaN) < 0 -> 0
             {IF err - st.perr > 0 THEN P ELSE 0}
      ELSE LET num == PidNum(st, err, cur, dt)
               r   == Clamp(RoundHalfAway(num, PidDen), 0, P)
           IN  IF IsTie(num, PidDen) /\ num > 0 /\ num < P * PidDen
                 THEN {r, r - 1} ELSE {r}

PidNext(st, target, cur, dt) ==
  LET err == target - cur
  IN  [st EXCEPT !.integ = IF st.started THEN st.integ + err * dt ELSE st.integ,
                 !.perr = err, !.started = TRUE]

\* result of one Cycle(target, current) call: [out, st]
LoopStep(alg, st, target, cur, dt) ==
  CASE alg.t = "direct" -> [out |-> Clamp(target, 0, P), st |-> st]
    [] alg.t = "rate"   -> [out |-> Clamp(cur + Clamp(target - cur, -alg.m, alg.m), 0, P), st |-> st]
    [] alg.t = "pid"    -> [out |-> CHOOSE o \in PidOutSet(st, target, cur, dt) :
                                       \A o2 \in PidOutSet(st, target, cur, dt) : o2 <= o,
                            st  |-> PidNext(st, target, cur, dt)]

LoopOutSet(alg, st, target, cur, dt) ==
  CASE alg.t = "direct" -> {Clamp(target, 0, P)}
    [] alg.t = "rate"   -> {Clamp(cur + Clamp(target - cur, -alg.m, alg.m), 0, P)}
    [] alg.t = "pid"    -> PidOutSet(st, target, cur, dt)
==============================================================================
