SPECIFICATION Spec
CHECK_DEADLOCK FALSE
INVARIANTS
  C06_Range
  C06_Saturation
  C07_Monotone
  C07_FnMonotone
  C07_RescaleMonotone
