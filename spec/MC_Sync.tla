---------------------------------- MODULE MC_Sync ---------------------------------
EXTENDS Sync, Json, Sequences, Integers
VARIABLE x
Init == x = 0
Next == UNCHANGED x
Spec == Init /\ [][Next]_x
SetToSeqS(S) == LET RECURSIVE F(_)
                    F(T) == IF T = {} THEN <<>> ELSE LET e == CHOOSE y \in T : TRUE IN <<e>> \o F(T \ {e})
                IN F(S)
PairSeq(p) == SetToSeqS(p)
Emit == PrintT(<<"MAYRACE", ToJson([ps \in 1..Cardinality(MayRacePairs) |-> PairSeq(SetToSeqS(MayRacePairs)[ps])])>>)
        /\ PrintT(<<"PROTECTED", ToJson([ps \in 1..Cardinality(ProtectedPairs) |-> PairSeq(SetToSeqS(ProtectedPairs)[ps])])>>)
\* the discipline the code claims: sensor smoothing and curve values are never raced by fan2go's own goroutines
C20_SensorsProtected == {"Sensor.avg"} \notin MayRacePairs
C20_CurveValueProtected == {"Curve.value"} \notin MayRacePairs
C20_RegistryProtected == \A p \in MayRacePairs : "Registry" \notin p
==============================================================================
