SPECIFICATION DSpec
CONSTANTS
  Fans <- F2
  Kind <- KindMixed
  HasMode <- ModeMixed
  HasRpm <- RpmMixed
  CfgMap <- AllFalse
  CfgMinMax <- AllFalse
  Parallel = TRUE
  MaxSignals = 1
  Outcomes <- OutOk
  Outcomes3 <- OutOk
  OrigModes = {2}
  OrigPwms = {77}
  MaxFaults = 0
  MaxStarts = 4
  SkipInitWhenMinMax = FALSE
CHECK_DEADLOCK FALSE
INVARIANTS
  C15_Reuse
  C15_ConfigMapNoSweep
  C15_AtMostOnce
PROPERTIES
  C15_StoredUntilDiscarded
