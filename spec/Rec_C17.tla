--------------------------------- MODULE Rec_C17 ---------------------------------
(* Records of the real start-up binding (harness TestDriveC17: fake hwmon tree ->       *)
(* gosensors stand-in -> hwmon.GetChips -> internal.InitializeObjects -> first use of    *)
(* the bound fan / sensor) validated against HwmonBind.tla.                             *)
EXTENDS HwmonBind, Json, TLC, IOUtils

VARIABLE l
Recs == ndJsonDeserialize(IOEnv.VERIF_TRACE)
N == Len(Recs)
Init == l = 1
Next == l <= N /\ l' = l + 1
Spec == Init /\ [][Next]_l
Cur == Recs[l]
Has == l <= N /\ Recs[l].ev = "Bind"

SetOf(s) == {s[i] : i \in 1..Len(s)}
TreeOf(t) == [i \in 1..Len(t) |-> [name |-> t[i].name, fans |-> SetOf(t[i].fans), temps |-> SetOf(t[i].temps)]]
NumOf(t, name) == t[CHOOSE i \in 1..Len(t) : t[i].name = name].num
Expected == IF Cur.isFan THEN BindFan(TreeOf(Cur.tree), Cur.sel) ELSE BindSensor(TreeOf(Cur.tree), Cur.sel)

\* the entry is bound to the device the user named: the device really read and written on first use
C17_BindsNamedDevice == Has /\ ~Expected.err =>
  LET x == Expected
      c == NumOf(Cur.tree, x.chip)
      r == Cur.res
  IN  /\ ~r.err /\ ~r.panic /\ r.chip = c
      /\ IF Cur.isFan
           THEN /\ r.rpm = x.rpm                         \* RPM input of the rpm channel
                /\ r.pwm = x.pwm /\ r.pwmchip = c        \* PWM value read from the pwm channel (default: rpm channel)
                /\ r.wrote = 10 * c + x.pwm              \* PWM written to the pwm channel of that chip
                /\ r.enable = 10 * c + x.pwm             \* enable control of the pwm channel
           ELSE r.temp = x.temp
\* no matching device: start-up fails with an error naming the entry, it never binds another device
C17_FailsCleanly == Has /\ Expected.err => Cur.res.err /\ ~Cur.res.panic /\ Cur.res.named
C17_NoCrash == Has => ~Cur.res.panic

\* ---- `fan2go detect` as an observer (drift only): the listing the user takes `index:` / `rpmChannel:` from shows, under
\* every index, the very device that BindFan / BindSensor give for that index - and every device of the tree exactly once
HasDetect == l <= N /\ Recs[l].ev = "Detect"
G17_DetectShowsBinding == HasDetect =>
  LET T == TreeOf(Cur.tree)
      D == Cur.listing
      Listed == {D[i].name : i \in 1..Len(D)}
  IN  /\ Cur.exit = 0
      /\ Listed = {T[i].name : i \in {j \in 1..Len(T) : T[j].fans # {} \/ T[j].temps # {}}}
      /\ Len(D) = Cardinality(Listed)
      /\ \A i \in 1..Len(D) :
           LET chip == T[CHOOSE j \in 1..Len(T) : T[j].name = D[i].name]
               num == NumOf(Cur.tree, D[i].name)
           IN  /\ Len(D[i].fans) = Cardinality(chip.fans)
               /\ {D[i].fans[k][1] : k \in 1..Len(D[i].fans)} = 1..Cardinality(chip.fans)
               /\ \A k \in 1..Len(D[i].fans) :
                    LET row == D[i].fans[k]
                        b == BindFan(T, [platform |-> D[i].name, index |-> row[1], rpmChannel |-> 0, pwmChannel |-> 0])
                    IN  /\ ~b.err /\ b.rpm = row[2]                     \* the channel shown is the channel bound
                        /\ row[3] = 1000 * num + 10 * row[2] + 1         \* the RPM shown is that channel's, on that chip
                        /\ row[4] = 100 + 10 * num + b.pwm               \* the PWM shown is the one that would be driven
               /\ Len(D[i].temps) = Cardinality(chip.temps)
               /\ {D[i].temps[k][1] : k \in 1..Len(D[i].temps)} = 1..Cardinality(chip.temps)
               /\ \A k \in 1..Len(D[i].temps) :
                    LET row == D[i].temps[k]
                        b == BindSensor(T, [platform |-> D[i].name, index |-> row[1]])
                    IN  /\ ~b.err /\ b.temp = row[2]
                        /\ row[3] = 1000 * (10 * num + row[2])

Report == l = N + 1 => PrintT(<<"TRACE-DONE", N, "DRIFT", <<>>>>)
TraceAccepted == TLCGet("stats").diameter = N + 1
==============================================================================
