--------------------------------- MODULE Rec_C17 ---------------------------------
(* Records of the real start-up binding (harness TestDriveC17: fake hwmon tree ->       *)
(* gosensors stand-in -> hwmon.GetChips -> internal.InitializeObjects -> first use of    *)
(* the bound fan / sensor) validated against HwmonBind.tla.                             *)
EXTENDS HwmonBind, Json, TLC, IOUtils

VARIABLE l
Recs == ndJsonDeserialize(IOEnv.VERIF_TRACE)
N == Len(Recs)
Init == l = 1
Next == l <= N /\ l' = l + 1
Spec == Init /\ [][Next]_l
Cur == Recs[l]
Has == l <= N

SetOf(s) == {s[i] : i \in 1..Len(s)}
TreeOf(t) == [i \in 1..Len(t) |-> [name |-> t[i].name, fans |-> SetOf(t[i].fans), temps |-> SetOf(t[i].temps)]]
NumOf(t, name) == t[CHOOSE i \in 1..Len(t) : t[i].name = name].num
Expected == IF Cur.isFan THEN BindFan(TreeOf(Cur.tree), Cur.sel) ELSE BindSensor(TreeOf(Cur.tree), Cur.sel)

\* the entry is bound to the device the user named: the device really read and written on first use
C17_BindsNamedDevice == Has /\ ~Expected.err =>
  LET x == Expected
      c == NumOf(Cur.tree, x.chip)
      r == Cur.res
  IN  /\ ~r.err /\ ~r.panic /\ r.chip = c
      /\ IF Cur.isFan
           THEN /\ r.rpm = x.rpm                         \* RPM input of the rpm channel
                /\ r.pwm = x.pwm /\ r.pwmchip = c        \* PWM value read from the pwm channel (default: rpm channel)
                /\ r.wrote = 10 * c + x.pwm              \* PWM written to the pwm channel of that chip
                /\ r.enable = 10 * c + x.pwm             \* enable control of the pwm channel
           ELSE r.temp = x.temp
\* no matching device: start-up fails with an error naming the entry, it never binds another device
C17_FailsCleanly == Has /\ Expected.err => Cur.res.err /\ ~Cur.res.panic /\ Cur.res.named
C17_NoCrash == Has => ~Cur.res.panic

Report == l = N + 1 => PrintT(<<"TRACE-DONE", N, "DRIFT", <<>>>>)
TraceAccepted == TLCGet("stats").diameter = N + 1
==============================================================================
