SPECIFICATION Spec
CHECK_DEADLOCK FALSE
INVARIANTS
  Report
  C12_ConformsCoded
  C12_ExactAndExtremes
  C12_FindClosest
  C12_SupportedInputs
  C12_WrittenIsNearest
POSTCONDITION TraceAccepted
