------------------------------- MODULE Rec_Curves ------------------------------
(* Records of real curve evaluations (harness TestDriveCurves / TestDriveC07Ctl)    *)
(* validated against Curves.tla (C06) and checked for monotonicity (C07).           *)
EXTENDS Curves, Json, TLC, IOUtils

VARIABLE l
Recs == ndJsonDeserialize(IOEnv.VERIF_TRACE)
N == Len(Recs)
Init == l = 1
Next == l <= N /\ l' = l + 1
Spec == Init /\ [][Next]_l
Cur == Recs[l]
Has == l <= N
Is(t) == Has /\ Cur.ev = t

FnOf(ps) == [k \in {ps[i][1] : i \in 1..Len(ps)} |-> LET i == CHOOSE j \in 1..Len(ps) : ps[j][1] = k IN ps[i][2]]
InRange(v) == v \in 0..P
NonDecreasing(vs) == \A i \in 1..(Len(vs) - 1) : vs[i] <= vs[i + 1]
StepsMonotone(st) == \A a, b \in DOMAIN st : a <= b => st[a] <= st[b]

\* ---- C06: every curve evaluates to its documented function, within 0..255 ----
C06_Linear == Is("Lin") =>
  \A i \in 1..Len(Cur.ts) : /\ Cur.vals[i] \in LinMinMaxSet(Cur.ts[i], Cur.mn, Cur.mx)
                            /\ InRange(Cur.vals[i]) /\ Cur.cur[i] = Cur.vals[i]
C06_Steps == Is("Steps") =>
  LET st == FnOf(Cur.steps) IN
  \A i \in 1..Len(Cur.ts) : /\ Cur.vals[i] \in StepsSet(Cur.ts[i], st)
                            /\ InRange(Cur.vals[i]) /\ Cur.cur[i] = Cur.vals[i]
\* non-integer and extreme sensor values: between the definition's values at floor and ceiling
Between(v, A, B) == v >= MinI(A \cup B) /\ v <= MaxI(A \cup B)
C06_LinearAnyFloat == Is("LinX") =>
  /\ InRange(Cur.val) /\ Cur.cur = Cur.val
  /\ Between(Cur.val, LinMinMaxSet(Cur.lo, Cur.mn, Cur.mx), LinMinMaxSet(Cur.hi, Cur.mn, Cur.mx))
C06_StepsAnyFloat == Is("StepsX") =>
  LET st == FnOf(Cur.steps) IN
  /\ InRange(Cur.val) /\ Cur.cur = Cur.val
  /\ Between(Cur.val, StepsSet(Cur.lo, st), StepsSet(Cur.hi, st))
\* curve graphs: leaves follow their definition, every function curve equals the named
\* aggregate of its members' values (compositional at any depth)
CfgById(cs, id) == cs[CHOOSE i \in 1..Len(cs) : cs[i].id = id]
ValOf(vals, id) == vals[CHOOSE i \in 1..Len(vals) : vals[i].id = id].v
TempOf(ss, id) == ss[CHOOSE i \in 1..Len(ss) : ss[i].id = id].T
C06_Graph == Is("Graph") =>
  \A k \in 1..Len(Cur.evals) :
    LET ev == Cur.evals[k] IN
    \A j \in 1..Len(ev.vals) :
      LET x == ev.vals[j]
          c == CfgById(Cur.curves, x.id)
      IN  /\ InRange(x.v) /\ x.cur = x.v
          /\ CASE c.t = "lin"   -> x.v \in LinMinMaxSet(TempOf(ev.sensors, c.sensor), c.mn, c.mx)
               [] c.t = "steps" -> x.v \in StepsSet(TempOf(ev.sensors, c.sensor), FnOf(c.steps))
               [] c.t = "fn"    -> x.v = Fn(c.fn, [m \in 1..Len(c.members) |-> ValOf(ev.vals, c.members[m])])
\* PID curve on the exact grid: the clamped PID term scaled to 255
RECURSIVE PidRun(_, _, _, _, _)
PidRun(g, sp, ms, vals, k) ==       \* TRUE iff vals[k..] are admissible from the state after k-1 steps
  LET RECURSIVE Go(_, _)
      Go(i, st) == IF i > Len(ms) THEN TRUE
                   ELSE vals[i] \in PidValSet(g, st, sp, ms[i]) /\ Go(i + 1, PidStep(st, sp, ms[i]))
  IN  Go(k, PidInit)
C06_Pid == Is("Pid") =>
  /\ PidRun([p |-> Cur.p, i |-> Cur.i, d |-> Cur.d], Cur.sp, Cur.ms, Cur.vals, 1)
  /\ \A i \in 1..Len(Cur.vals) : InRange(Cur.vals[i]) /\ Cur.cur[i] = Cur.vals[i]
\* a term far beyond 0..1 is clamped BEFORE it is scaled: 255 for a positive term, 0 for a negative one (from the second
\* evaluation on; the first one only starts the clock and yields 0)
C06_PidSaturates == Is("PidSat") =>
  \A i \in 3..Len(Cur.vals) : Cur.vals[i] = Cur.want
C06_PidRange == Is("PidRange") => \A i \in 1..Len(Cur.vals) : InRange(Cur.vals[i])

\* ---- C07: hotter never means slower ----
C07_LinearMonotone == Is("Lin") => NonDecreasing(Cur.vals)
C07_StepsMonotone == Is("Steps") /\ Cur.mono => NonDecreasing(Cur.vals)
\* along an ascending path of sensor vectors every curve of a monotone graph is non-decreasing
C07_GraphMonotone == Is("Graph") /\ Cur.mono =>
  \A k \in 1..(Len(Cur.evals) - 1) : \A j \in 1..Len(Cur.evals[k].vals) :
     Cur.evals[k].vals[j].v <= Cur.evals[k + 1].vals[j].v
\* several fans evaluating one monotone graph concurrently while the temperatures rise: the values one fan sees never fall
C07_ConcurrentMonotone == Is("ConcSweep") => NonDecreasing(Cur.vals) /\ \A i \in 1..Len(Cur.vals) : InRange(Cur.vals[i])
\* direct algorithm: requested and written PWM are non-decreasing in the curve value
C07_CtlMonotone == Is("CtlSweep") =>
  /\ NonDecreasing(Cur.reqs) /\ NonDecreasing(Cur.regs)
  /\ \A i \in 1..Len(Cur.reqs) : Cur.reqs[i] \in RescaleSet(i - 1, Cur.gmin, Cur.mx)
  /\ LET m == FnOf(Cur.map)
         ks == DistinctKeys(m)
     IN  \A i \in 1..Len(Cur.regs) : Cur.regs[i] \in WriteSetForK(m, ks, Cur.reqs[i])

\* ... also with maxPwmChangePerCycle, from one and the same previous state
C07_CtlRateMonotone == Is("CtlSweepRate") => NonDecreasing(Cur.reqs)

Report == l = N + 1 => PrintT(<<"TRACE-DONE", N, "DRIFT", <<>>>>)
TraceAccepted == TLCGet("stats").diameter = N + 1
==============================================================================
