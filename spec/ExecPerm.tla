-------------------------------- MODULE ExecPerm --------------------------------
(* C18: the permission predicate for files that fan2go executes (and for its own      *)
(* configuration file when it declares commands): owned by root, not writable by a     *)
(* non-root group, not writable by others.  gw / ow: the group-write (020) and         *)
(* other-write (002) mode bits.                                                        *)
Allowed(ownerRoot, groupRoot, gw, ow) == ownerRoot /\ (groupRoot \/ ~gw) /\ ~ow
==============================================================================
