------------------------------ MODULE Controller ------------------------------
(* One fan's regulation as internal/controller/controller.go executes it.       *)
(*                                                                              *)
(* One action per critical section of the implementation:                       *)
(*   Cycle(cv, lo)    = UpdateFanSpeed: calculateTargetPwm ; trySetManualPwm ;  *)
(*                      setPwm                        (controller.go 243-261)   *)
(*   MeasureRpm(r,ok) = measureRpm                    (controller.go 347-361)   *)
(*   ThirdParty(m,p)  = environment: somebody else writes the fan's registers   *)
(*                                                                              *)
(* The fan's configuration is the record cfg, chosen in the initial state, so   *)
(* one model-checking run covers a set of configurations and trace validation   *)
(* binds it from the recorded trace.                                            *)
(*                                                                              *)
(*   cfg.kind      "hwmon" | "file" | "cmd"                                     *)
(*   cfg.neverStop, cfg.hasRpm, cfg.hasPwm (PWM can be read back), cfg.hasMode  *)
(*   cfg.gmin      GetMinPwm(): 0 unless neverStop (hwmon: configured or        *)
(*                 measured minimum; file/cmd: always 0)                        *)
(*   cfg.mx        GetMaxPwm()                                                  *)
(*   cfg.map       the PWM map, cfg.keys = DistinctKeys(cfg.map),                *)
(*                 cfg.wf = WriteTable(map, keys), cfg.ws = WriteSetTable(..)   *)
(*   cfg.n         rpmRollingWindowSize                                         *)
(*   cfg.alg       control algorithm: [t |-> "any"] (arbitrary loop output),    *)
(*                 [t |-> "direct"], [t |-> "rate", m |-> 1..255],              *)
(*                 [t |-> "pid", dt |-> tick in ms]  (default gains)            *)
(*                                                                              *)
(* Behaviour switches (CONSTANTS) keep the behaviour of the code before the     *)
(* fix: commits available as mutant actions for the self test:                  *)
(*   BugD1 : the stall branch stores the offset as the fan's minimum            *)
(*   BugD2 : the previous request (fan scale) is fed back into the control loop *)
(*   BugD4 : stall test "average <= 0" instead of "average < 1"                 *)
EXTENDS Integers, Sequences, FiniteSets, Numeric, PwmMap, ControlLoop

CONSTANTS BugD1, BugD2, BugD4

VARIABLES
  cfg,         \* configuration record (never changes)
  fanMin,      \* the fan object's minimum (GetMinPwm); only BugD1 ever changes it
  offset,      \* controller.minPwmOffset
  last,        \* controller.lastSetPwm, Nil = -1
  pwm, mode,   \* the fan's registers (pwmN, pwmN_enable)
  avg,         \* the fan's RPM average, rational [num, den]
  unexpected,  \* statistics: UnexpectedPwmValueCount
  status,      \* "Regulating" | "ControlError"
  loop,        \* control-loop state [y, integ, perr, started]; y = previous output, Nil = -1
  out          \* observation of the last action (output only)

cvars == <<cfg, fanMin, offset, last, pwm, mode, avg, unexpected, status, loop, out>>

Nil == -1
Manual == 1

\* value written for a request / admissible values (lookup tables for 0..255)
WF(r) == IF r \in 0..P THEN cfg.wf[r] ELSE WriteForK(cfg.map, cfg.keys, r)
WS(r) == IF r \in 0..P THEN cfg.ws[r] ELSE WriteSetForK(cfg.map, cfg.keys, r)

Rat(a, b) == [num |-> a, den |-> b]
AvgLt1 == avg.num < avg.den
AvgLe0 == avg.num <= 0
AvgStalled == IF BugD4 THEN AvgLe0 ELSE AvgLt1

Floor == fanMin + offset

NoOut == [ev |-> "none"]

CInit(c, p0, m0, a0) ==
  /\ cfg = c
  /\ fanMin = c.gmin
  /\ offset = 0
  /\ last = Nil
  /\ pwm = p0
  /\ mode = m0
  /\ avg = a0
  /\ unexpected = 0
  /\ status = "Regulating"
  /\ loop = LoopInit
  /\ out = NoOut

------------------------------------------------------------------------------
\* calculateTargetPwm's "current" value (first cycle: the PWM read back, or the minimum)
Cur == IF last # Nil THEN last ELSE IF cfg.hasPwm THEN pwm ELSE fanMin

\* value fed back into the control loop
LoopCur == IF BugD2 \/ loop.y = Nil THEN Cur ELSE loop.y

\* ensureNoThirdPartyIsMessingWithUs
ThirdPartyDelta ==
  IF cfg.hasPwm /\ last # Nil /\ pwm # WF(last) THEN 1 ELSE 0

\* The whole cycle. cv: curve value; lo: output of the control loop; t: rescaled target
\* (t is a parameter because the float evaluation has a one-off envelope, see Numeric).
\* Two things the environment can do to a cycle are parameters (named deviations from the undisturbed cycle):
\*   refused  - the device refuses the PWM write of this cycle (the request is recorded as set all the same, the error is logged);
\*   tookBack - the firmware takes the fan back to automatic mode right after the cycle's write of the control mode: the
\*              read-back does not show manual mode and the code falls back to mode 0 ("disabled": no regulation by the
\*              chip, the PWM value is still honoured) - trySetManualPwm's second attempt.
CycleEnvT(cv, lo, lp, t, refused, tookBack) ==
  LET x     == Clamp(lo, 0, P)
      mx    == cfg.mx
      stall == cfg.hasRpm /\ cfg.neverStop /\ last = t /\ AvgStalled
      tp    == ThirdPartyDelta
  IN
  /\ status = "Regulating"
  /\ t \in RescaleSet(x, Floor, mx)
  /\ unexpected' = unexpected + tp
  /\ loop' = [lp EXCEPT !.y = x]
  /\ IF stall /\ t >= mx
       THEN \* fan stalled at max pwm: control error, nothing is written by the cycle
            /\ status' = "ControlError"
            /\ out' = [ev |-> "Cycle", cv |-> cv, req |-> Nil, err |-> TRUE, wrote |-> Nil,
                       raised |-> FALSE, tp |-> tp]
            /\ UNCHANGED <<cfg, fanMin, offset, last, pwm, mode, avg>>
       ELSE LET raise == stall
                req   == IF raise THEN t + 1 ELSE t
                w     == WF(req)
                skip  == cfg.hasPwm /\ pwm = w
            IN
            /\ status' = status
            /\ offset' = IF raise THEN offset + 1 ELSE offset
            /\ fanMin' = IF raise /\ BugD1 /\ cfg.kind = "hwmon" THEN offset + 1 ELSE fanMin
            /\ avg'    = IF raise THEN Rat(1, 1) ELSE avg
            /\ last'   = req
            /\ mode'   = IF cfg.modeStuck THEN mode ELSE IF tookBack THEN 0 ELSE IF cfg.hasMode THEN Manual ELSE mode
            /\ pwm'    = IF skip \/ refused THEN pwm ELSE w
            /\ out'    = [ev |-> "Cycle", cv |-> cv, req |-> req, err |-> FALSE,
                          wrote |-> IF skip THEN Nil ELSE w, raised |-> raise, tp |-> tp]
            /\ UNCHANGED cfg

CycleT(cv, lo, lp, t) == CycleEnvT(cv, lo, lp, t, FALSE, FALSE)

Cycle(cv, lo, lp) == \E t \in RescaleSet(Clamp(lo, 0, P), Floor, cfg.mx) : CycleT(cv, lo, lp, t)

\* exhaustive models use the exact value
CycleExact(cv, lo, lp) == CycleT(cv, lo, lp, Rescale(Clamp(lo, 0, P), Floor, cfg.mx))

\* the cycle with the configured control algorithm; dt = elapsed ms since the previous cycle
CycleAlg(cv, dt) ==
  LET r == LoopStep(cfg.alg, loop, cv, LoopCur, dt)
  IN  CycleExact(cv, r.out, r.st)

------------------------------------------------------------------------------
\* measureRpm. r: RPM reading (0 is used when the read failed, ok = FALSE)
AvgStep(a, n, r) ==
  LET nn == a.num * (n - 1) + r * a.den
      dd == a.den * n
      g  == GCD(nn, dd)
  IN  IF g = 0 THEN Rat(0, 1) ELSE Rat(nn \div g, dd \div g)

MeasureRpm(r, ok) ==
  /\ cfg.hasRpm
  /\ avg' = IF cfg.kind = "hwmon" THEN AvgStep(avg, cfg.n, r)
            ELSE \* file/cmd fans keep the last reading; a failed read decays the stored integer
                 IF ok THEN Rat(r, 1)
                 ELSE Rat(TruncDiv(avg.num * (cfg.n - 1), avg.den * cfg.n), 1)
  /\ out' = [ev |-> "Rpm", r |-> r, ok |-> ok]
  /\ UNCHANGED <<cfg, fanMin, offset, last, pwm, mode, unexpected, status, loop>>

\* environment: firmware, another tool, resume from suspend
ThirdParty(m, p) ==
  /\ mode' = m
  /\ pwm' = p
  /\ out' = [ev |-> "Poke", mode |-> m, pwm |-> p]
  /\ UNCHANGED <<cfg, fanMin, offset, last, avg, unexpected, status, loop>>
==============================================================================
