---------------------------------- MODULE Rec_Sync ---------------------------------
(* Race reports of the Go race detector (and runtime aborts on concurrent map access)     *)
(* recorded while every activity of the daemon ran at high rate, each mapped to a pair of  *)
(* code-site classes, validated against Sync!MayRacePairs.                                 *)
EXTENDS Sync, Json, IOUtils, Sequences, Integers

VARIABLE l
Recs == ndJsonDeserialize(IOEnv.VERIF_TRACE)
N == Len(Recs)
Init == l = 1
Next == l <= N /\ l' = l + 1
Spec == Init /\ [][Next]_l
Cur == Recs[l]
Has == l <= N /\ Cur.ev = "Race"
PairOf(e) == {e.a, e.b}

\* every observed race lies where the locking discipline (as modelled) admits one; in particular
\* sensor smoothing, curve values and the registries are never raced
C20_OnlyModelledRaces == Has => PairOf(Cur) \in MayRacePairs
\* every report can be attributed to site classes of the model
C20_Classified == Has => Cur.a # "Other" /\ Cur.b # "Other"

Report == l = N + 1 => PrintT(<<"TRACE-DONE", N, "DRIFT", <<>>>>)
TraceAccepted == TLCGet("stats").diameter = N + 1
==============================================================================
