SPECIFICATION TSpec
CONSTANTS
  BugD6 = FALSE
  BugD7 = FALSE
CHECK_DEADLOCK FALSE
INVARIANTS
  Report
  C08_HullObs
  C08_NeverPoisonedObs
PROPERTIES
  C08_ContractionObs
  C08_FaultIsNoOpObs
POSTCONDITION TraceAccepted
