-------------------------------- MODULE Rec_C12 -------------------------------
(* Records of the real util.ExtractKeysWithDistinctValues, util.FindClosest and the  *)
(* controller's setPwm writing to a real hwmon fan (harness TestDriveC12), validated  *)
(* against the definition PwmMap.tla for every request -50..305.                      *)
EXTENDS PwmMap, Json, TLC, IOUtils

VARIABLE l
Recs == ndJsonDeserialize(IOEnv.VERIF_TRACE)
N == Len(Recs)
Init == l = 1
Next == l <= N /\ l' = l + 1
Spec == Init /\ [][Next]_l

MapOf(ps) == [k \in {ps[i][1] : i \in 1..Len(ps)} |-> LET i == CHOOSE j \in 1..Len(ps) : ps[j][1] = k IN ps[i][2]]
Cur == Recs[l]
Has == l <= N /\ Recs[l].ev = "Map"
IsSeq == l <= N /\ Recs[l].ev = "Seq"
ReqOf(i) == i - 51            \* vec[1] is the request -50

\* (LET-bound map and supported inputs are computed once per record and formula)
\* the supported inputs are the first input of each run of consecutive equal outputs
C12_SupportedInputs == Has => {Cur.keys[i] : i \in 1..Len(Cur.keys)} = DistinctKeys(MapOf(Cur.map))
\* the value written is the map's output for a nearest supported input (either neighbour on a tie)
C12_WrittenIsNearest == Has =>
  LET m == MapOf(Cur.map)
      ks == DistinctKeys(m)
  IN  \A i \in 1..Len(Cur.vec) : Cur.vec[i] \in WriteSetForK(m, ks, ReqOf(i))
C12_FindClosest == Has =>
  LET ks == DistinctKeys(MapOf(Cur.map))
  IN  \A i \in 1..Len(Cur.fc) : Cur.fc[i] \in Nearest(ReqOf(i), ks)
\* consequences stated by the property, on the observed values
C12_ExactAndExtremes == Has =>
  LET m == MapOf(Cur.map)
      ks == DistinctKeys(m)
      lo == MinI(ks)
      hi == MaxI(ks)
  IN  \A i \in 1..Len(Cur.vec) :
        LET r == ReqOf(i) IN
        /\ (r \in ks => Cur.vec[i] = m[r])
        /\ (r <= lo => Cur.vec[i] = m[lo])
        /\ (r >= hi => Cur.vec[i] = m[hi])
\* sequences of requests: whatever value the fan shows when a request arrives (what the previous request left, or what
\* somebody else wrote - possibly a number that is also an input or an output of the map), it ends up with the output
\* of a nearest supported input of the NEW request
C12_SequenceReceives == IsSeq =>
  LET m == MapOf(Cur.map)
      ks == DistinctKeys(m)
  IN  \A i \in 1..Len(Cur.reqs) : Cur.regs[i] \in WriteSetForK(m, ks, Cur.reqs[i])
\* which values the fan "supports": a PWM map given in the fan's configuration is the map that is used - whatever an
\* earlier run stored for the same fan (the stored map is a cache of a sweep, not a second source to be mixed in) - and
\* what is written afterwards are outputs of THAT map
IsSrc == l <= N /\ Recs[l].ev = "MapSrc"
C12_ConfiguredMapIsUsed == IsSrc /\ Len(Cur.cfg) > 0 =>
  LET m == MapOf(Cur.cfg)
      ks == DistinctKeys(m)
  IN  /\ ~Cur.err /\ MapOf(Cur.got) = m
      /\ \A i \in 1..Len(Cur.reqs) : Cur.regs[i] \in WriteSetForK(m, ks, Cur.reqs[i])
\* conformance (drift): without a configured map the stored one is used, and with neither the sweep of an exact register
\* finds the identity
G12_StoredOrSwept == IsSrc /\ Len(Cur.cfg) = 0 =>
  IF Len(Cur.stored) > 0 THEN MapOf(Cur.got) = MapOf(Cur.stored) ELSE MapOf(Cur.got) = [v \in 0..255 |-> v]
\* conformance with the tie-breaking of the model of the code (larger neighbour)
C12_ConformsCoded == Has =>
  LET ks == DistinctKeys(MapOf(Cur.map))
  IN  \A i \in 1..Len(Cur.fc) : Cur.fc[i] = NearestCoded(ReqOf(i), ks)

Report == l = N + 1 => PrintT(<<"TRACE-DONE", N, "DRIFT", <<>>>>)
TraceAccepted == TLCGet("stats").diameter = N + 1
==============================================================================
