--------------------------------- MODULE MC_Config --------------------------------
(* C11 on the model of the validator: every abstract configuration that Validate        *)
(* accepts is well-formed and evaluable, every documented configuration is accepted.     *)
EXTENDS Config, TLC

CONSTANT Shape      \* "small": two curves with every variant; "graph": function curves over 3..4 nodes
VARIABLES vs, va, vb, vf, vg
vars == <<vs, va, vb, vf, vg>>

SensorVariants == { [id |-> i, nb |-> n, hwOk |-> h] : i \in {"s1", "s2"}, n \in {0, 1, 2}, h \in BOOLEAN }
Sensors == { <<a>> : a \in SensorVariants } \cup { <<a, b>> : a \in {x \in SensorVariants : x.nb = 1 /\ x.hwOk}, b \in {x \in SensorVariants : x.nb = 1 /\ x.hwOk} }

CurveIds == {"c1", "c2"}
MemberSeqs == {<<>>} \cup { <<a>> : a \in {"c1", "c2", "cX"} } \cup { <<a, b>> : a \in {"c1", "c2", "cX"}, b \in {"c1", "c2"} }
Plain(id, nb) == [id |-> id, nb |-> nb, kind |-> "", sensor |-> "", fn |-> "", members |-> <<>>, steps |-> -1, pidOk |-> TRUE]
CurveVariants ==
  { Plain(i, n) : i \in CurveIds, n \in {0, 2} }
  \cup { [Plain(i, 1) EXCEPT !.kind = "linear", !.sensor = s, !.steps = st] : i \in CurveIds, s \in {"s1", "sX", ""}, st \in {-1, 0, 1, 3} }
  \cup { [Plain(i, 1) EXCEPT !.kind = "pid", !.sensor = s, !.pidOk = ok] : i \in CurveIds, s \in {"s1", "sX"}, ok \in BOOLEAN }
  \cup { [Plain(i, 1) EXCEPT !.kind = "function", !.fn = f, !.members = m] : i \in CurveIds, f \in {"average", "delta", "bogus"}, m \in MemberSeqs }
FanVariants == { [id |-> "f1", nb |-> n, curve |-> cu, algOk |-> a, hwOk |-> h] : n \in {0, 1, 2}, cu \in {"c1", "cX", ""}, a \in BOOLEAN, h \in BOOLEAN }

SensorSeqs == { <<[id |-> "s1", nb |-> 1, hwOk |-> TRUE]>>, <<[id |-> "s1", nb |-> 1, hwOk |-> TRUE], [id |-> "s1", nb |-> 1, hwOk |-> TRUE]>>,
                <<[id |-> "s1", nb |-> 0, hwOk |-> TRUE]>>, <<[id |-> "s1", nb |-> 1, hwOk |-> FALSE]>> }

\* function-curve graphs: nodes g1..gn, each with a member set out of all nodes and a leaf
GraphNodes == IF Shape = "graph4" THEN {"g1", "g2", "g3", "g4"} ELSE {"g1", "g2", "g3"}
Leaf == [Plain("leaf", 1) EXCEPT !.kind = "linear", !.sensor = "s1"]
NodeSeq == IF Shape = "graph4" THEN <<"g1", "g2", "g3", "g4">> ELSE <<"g1", "g2", "g3">>
SetToSeq2(S) == IF S = {} THEN <<>> ELSE LET RECURSIVE F(_)
                                            F(T) == IF T = {} THEN <<>> ELSE LET x == CHOOSE y \in T : TRUE IN <<x>> \o F(T \ {x})
                                        IN F(S)
\* 3 nodes: any subset of the nodes, the leaf and a dangling reference; 4 nodes: the leaf plus any subset of the nodes
\* (65536 graphs - all cycle shapes over 4 nodes; the unrestricted product exceeds TLC's set size limit)
MemberSets == IF Shape = "graph4" THEN {S \cup {"leaf"} : S \in SUBSET GraphNodes} ELSE SUBSET (GraphNodes \cup {"leaf", "gX"})
GraphCfgs == { [sensors |-> <<[id |-> "s1", nb |-> 1, hwOk |-> TRUE]>>,
                curves |-> [i \in 1..Len(NodeSeq) |-> [Plain(NodeSeq[i], 1) EXCEPT !.kind = "function", !.fn = "maximum", !.members = SetToSeq2(ms[NodeSeq[i]])]] \o <<Leaf>>,
                fans |-> <<[id |-> "f1", nb |-> 1, curve |-> "g1", algOk |-> TRUE, hwOk |-> TRUE]>>, documented |-> TRUE] :
                 ms \in [GraphNodes -> MemberSets] }

NoCfg == [none |-> TRUE]
Init == IF Shape = "small"
          THEN /\ vs \in SensorSeqs /\ va \in {x \in CurveVariants : x.id = "c1"} /\ vb \in CurveVariants /\ vf \in FanVariants
               /\ vg = NoCfg
          ELSE /\ vg \in GraphCfgs /\ vs = <<>> /\ va = NoCfg /\ vb = NoCfg /\ vf = NoCfg
Next == UNCHANGED vars
Spec == Init /\ [][Next]_vars
c == IF Shape = "small" THEN [sensors |-> vs, curves |-> <<va, vb>>, fans |-> <<vf>>, documented |-> TRUE] ELSE vg

C11_AcceptedIsWellFormed == Validate(c) => WellFormed(c) /\ Evaluable(c)
C11_DocumentedIsAccepted == Documented(c) /\ (\A i \in 1..Len(c.sensors) : c.sensors[i].hwOk)
                               /\ (\A i \in 1..Len(c.fans) : c.fans[i].algOk /\ c.fans[i].hwOk)
                               /\ (\A i \in 1..Len(c.curves) : c.curves[i].pidOk) => Validate(c)
NV_NothingAccepted == ~Validate(c)
NV_NoCycleRejected == ~(~Validate(c) /\ ~Acyclic(c))
==============================================================================
