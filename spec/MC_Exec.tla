--------------------------------- MODULE MC_Exec --------------------------------
EXTENDS Exec, TLC
Params == { [allowed |-> a, startable |-> s, r |-> r, g |-> g, t |-> t, exit0 |-> z] :
             a \in BOOLEAN, s \in BOOLEAN, r \in {0, 1, 3, 20}, g \in {0, 2, 6, 20}, t \in {2, 5}, z \in BOOLEAN }
Init == \E p \in Params : EInit(p)
Spec == Init /\ [][ENext]_evars

\* C18: the whole space of the predicate (owner x group x group-write x other-write)
C18_Definition ==
  \A o \in BOOLEAN, gr \in BOOLEAN, gw \in BOOLEAN, ow \in BOOLEAN :
     Allowed(o, gr, gw, ow) <=> (o /\ ~ow /\ (gr \/ ~gw))
==============================================================================
