------------------------------- MODULE MC_System -------------------------------
(* Small exhaustive instance of System.tla: two sensors, a min/max curve, a steps curve, a     *)
(* maximum and an average over both (nested once more), three fans of which two share a curve. *)
EXTENDS System

CONSTANTS MaxSteps, Tier
Readings == IF Tier = "quick" THEN {20000, 47500, 80000} ELSE {20000, 40000, 47500, 61000, 80000}

CurveCfgMC ==
  [lin   |-> [t |-> "lin", sensor |-> "s1", mn |-> 40, mx |-> 80, steps |-> <<>>, fn |-> "", members |-> <<>>],
   steps |-> [t |-> "steps", sensor |-> "s2", mn |-> 0, mx |-> 0, steps |-> (30 :> 10 @@ 50 :> 100 @@ 70 :> 255), fn |-> "", members |-> <<>>],
   mx    |-> [t |-> "fn", sensor |-> "", mn |-> 0, mx |-> 0, steps |-> <<>>, fn |-> "maximum", members |-> <<"lin", "steps">>],
   avg   |-> [t |-> "fn", sensor |-> "", mn |-> 0, mx |-> 0, steps |-> <<>>, fn |-> "average", members |-> <<"mx", "lin">>]]
FanCfgMC ==
  [f1 |-> [curve |-> "lin", gmin |-> 0, mx |-> 255],
   f2 |-> [curve |-> "avg", gmin |-> 30, mx |-> 200],
   f3 |-> [curve |-> "avg", gmin |-> 30, mx |-> 200]]
SensorIdsMC == {"s1", "s2"}
CfgMC == [win |-> 3, sensors |-> SensorIdsMC, curves |-> CurveCfgMC, fans |-> FanCfgMC]

VARIABLE steps
mcvars == <<sysvars, steps>>

Init == SysInit(CfgMC, [s \in SensorIdsMC |-> 40000]) /\ steps = 0
Next == /\ steps < MaxSteps /\ steps' = steps + 1
        /\ \/ \E s \in SensorIds, x \in Readings : Poll(s, x)
           \/ \E s \in SensorIds : PollFail(s)
           \/ \E f \in FanIds : FanCycle(f)
Spec == Init /\ [][Next]_mcvars

\* the graph is not vacuous: a fan's PWM really rises and really falls somewhere
NV_NeverFalls == [][\A f \in FanIds : fpwm[f] >= 0 => fpwm'[f] >= fpwm[f]]_mcvars
NV_NeverRisesUnderUp == [][\A f \in FanIds : (fpwm[f] >= 0 /\ up[f]) => fpwm'[f] <= fpwm[f]]_mcvars
==============================================================================
