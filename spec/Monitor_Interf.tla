----------------------------- MODULE Monitor_Interf -----------------------------
(* C05 on executions of the REAL controller.Run (RPM monitor and control loop as concurrent      *)
(* goroutines, virtual time): a third party rewrites the fan's control mode and PWM value at      *)
(* instants between two ticks; after the next completed control cycle the fan is in manual mode  *)
(* again and at the value the cycle's target dictates (identity PWM map).                        *)
EXTENDS Integers, Sequences, Json, TLC, IOUtils

VARIABLES l, poked, cycles
vars == <<l, poked, cycles>>
Trace == ndJsonDeserialize(IOEnv.VERIF_TRACE)
N == Len(Trace)
Init == l = 1 /\ poked = 0 /\ cycles = 0
Cur == Trace[l]
Next == /\ l <= N /\ l' = l + 1
        /\ poked' = IF Cur.ev = "Poke3" THEN poked + 1 ELSE IF Cur.ev = "Begin" THEN 0 ELSE poked
        /\ cycles' = IF Cur.ev = "CycleEnd" THEN cycles + 1 ELSE IF Cur.ev = "Begin" THEN 0 ELSE cycles
Spec == Init /\ [][Next]_vars

IsCycleOk == l <= N /\ Cur.ev = "CycleEnd" /\ Cur.a[2] = 0 /\ Cur.a[3] = 0
C05_UndoneRun == IsCycleOk => (Cur.mode \in {1, -1}) /\ Cur.pwm = Cur.a[1]

\* a changed PWM value is counted as a third-party change (at least one count once somebody else really changed the value and
\* a cycle followed), and nothing is counted in a run in which nobody touched the fan - whatever went wrong at start-up
C05_CountedRun == (l <= N /\ Cur.ev = "C05Count") =>
  /\ (Cur.effective > 0 /\ Cur.cycles >= 10 => Cur.unexpected > 0)
  /\ (Cur.quiet => Cur.unexpected = 0)

Report == l = N + 1 => PrintT(<<"TRACE-DONE", N, "DRIFT", <<>>>>)
TraceAccepted == TLCGet("stats").diameter = N + 1
==============================================================================
