SPECIFICATION Spec
CHECK_DEADLOCK FALSE
INVARIANTS
  Report
  C05_UndoneRun
POSTCONDITION TraceAccepted
