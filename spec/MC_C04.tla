------------------------------- MODULE MC_C04 ---------------------------------
(* C04: under a constant curve value the request settles - within a number of   *)
(* cycles that depends only on the control algorithm's settings - at a steady   *)
(* value determined by the curve value and the fan's limits alone.              *)
(*                                                                              *)
(* The whole cycle of Controller.tla closed through the concrete control loops  *)
(* of ControlLoop.tla (direct, rate limited, PID with the default gains in      *)
(* exact rational arithmetic).  The curve follows an ARBITRARY trajectory over  *)
(* {0, c, 255} of any length; the history variable kc counts for how many cycles *)
(* it has been constant (capped at K+3), so the closure of the reachable graph  *)
(* contains every prior history followed by a constant stretch.                 *)
EXTENDS ControllerProps, TLC

CONSTANTS Algs,      \* set of control algorithm records
          CSet,      \* curve values c
          StartSet,  \* PWM values shown by the fan before the first cycle (first "current")
          Lims       \* fan limits <<min, max>>, min < max

VARIABLES c

mvars == <<pvars, c>>

\* named constant values for the configuration files
AlgsStatelessQuick == {[t |-> "direct"], [t |-> "rate", m |-> 1], [t |-> "rate", m |-> 10], [t |-> "rate", m |-> 255]}
AlgsStatelessThorough == {[t |-> "direct"]} \cup {[t |-> "rate", m |-> m] : m \in {1, 2, 3, 5, 10, 50, 255}}
AlgsPid50 == {[t |-> "pid", dt |-> 50]}
AlgsPid100 == {[t |-> "pid", dt |-> 100]}
AlgsPid200 == {[t |-> "pid", dt |-> 200]}
AlgsPid500 == {[t |-> "pid", dt |-> 500]}
AlgsPid1000 == {[t |-> "pid", dt |-> 1000]}
AlgsPid2000 == {[t |-> "pid", dt |-> 2000]}
LimsQuick == {<<0, 255>>, <<30, 200>>, <<100, 101>>, <<0, 128>>}
LimsOne == {<<30, 200>>}
LimsThorough == {<<0, 255>>, <<30, 200>>, <<100, 101>>, <<0, 128>>, <<0, 1>>, <<254, 255>>, <<77, 203>>}
All == 0..255
CQuick == {0, 1, 77, 128, 254, 255}
CThorough == {0, 1, 2, 33, 64, 77, 100, 127, 128, 129, 200, 253, 254, 255}

CfgOfAlg(a, lim) ==
  [kind |-> "hwmon", neverStop |-> TRUE, hasRpm |-> FALSE, hasPwm |-> TRUE, hasMode |-> TRUE, modeStuck |-> FALSE,
   gmin |-> lim[1], mx |-> lim[2], map |-> Identity, keys |-> 0..P, wf |-> Identity,
   ws |-> [r \in 0..P |-> {r}], n |-> 10, alg |-> a]

Dt == IF cfg.alg.t = "pid" THEN cfg.alg.dt ELSE 200

Init == \E a \in Algs, lim \in Lims, cv \in CSet, p0 \in StartSet :
          /\ CInit(CfgOfAlg(a, lim), p0, 2, Rat(0, 1))
          /\ touched = FALSE /\ zeros = 0 /\ spin = 0 /\ H4Init
          /\ c = cv

Next == /\ \E cv \in {0, c, P} : CycleAlg(cv, Dt) /\ HCycle /\ H4Cycle
        /\ c' = c

Spec == Init /\ [][Next]_mvars

\* the steady value is min for curve 0, max for curve 255, non-decreasing in between
\* (a fact about the configuration: evaluated once per configuration, in its initial states)
C04_SteadyEnds == last = Nil =>
                  /\ (DirectOf(0) = cfg.gmin) /\ (DirectOf(P) = cfg.mx)
                  /\ \A a \in 0..(P-1) : DirectOf(a) <= DirectOf(a + 1)

\* measuring aid: is the request ever changed after more than X constant cycles?
CONSTANT ProbeX
ProbeChange == ~(IsCycleOk /\ prevReq # Nil /\ out.req # prevReq /\ kc > ProbeX)

\* non-vacuity: a constant stretch longer than K is reached
NV_NeverLong == ~(kc > KOf(cfg.alg))
==============================================================================
