-------------------------------- MODULE Rec_Backend --------------------------------
(* Records of the real start-up (internal.InitializeObjects + initializeFanControllers    *)
(* through the verif hook) validated against Backend.tla.  The selected control loop is    *)
(* classified by probing it: Cycle(255, 0) on a fresh loop yields 255 (direct), m (rate    *)
(* limited by m), 0 (PID: the first call only starts the clock).                           *)
EXTENDS Backend, Numeric, Json, TLC, IOUtils, Sequences
VARIABLE l
Recs == ndJsonDeserialize(IOEnv.VERIF_TRACE)
N == Len(Recs)
Init == l = 1
Next == l <= N /\ l' = l + 1
Spec == Init /\ [][Next]_l
Cur == Recs[l]
Has == l <= N
G11_AlgorithmSelection == Has /\ Cur.ev = "Alg" => Cur.class = AlgOf(Cur.loop, Cur.alg)
G11_RateLimit == Has /\ Cur.ev = "Alg" /\ Cur.class = "rate" => Cur.probe = Cur.limit
G11_SensorSeed == Has /\ Cur.ev = "Seed" => Cur.avgm = 1000 * SeedOf(Cur.readOk, Cur.value)
\* C04 in a daemon with several fans: whatever the other fans' curves do, a fan whose curve value is constant has settled
\* after K(alg) of ITS cycles at the value the direct algorithm gives, and stays there (each fan has its own loop state)
C04_MultiFanSettles == Has /\ Cur.ev = "MultiSettle" =>
  \A i \in 1..Len(Cur.reqs) : Cur.reqs[i] \in RescaleSet(Cur.c, Cur.gmin, Cur.mx)
Report == l = N + 1 => PrintT(<<"TRACE-DONE", N, "DRIFT", <<>>>>)
TraceAccepted == TLCGet("stats").diameter = N + 1
==============================================================================
