SPECIFICATION Spec
CHECK_DEADLOCK FALSE
INVARIANTS
  C17_OrderIndependent
  C17_BoundDeviceExists
