--------------------------- MODULE Monitor_Daemon ----------------------------
(* Monitoring of executions recorded from the REAL controller.Run (harness/run.go, one or       *)
(* several fans, in a synctest bubble, in real time, or the real daemon process): the           *)
(* variables of Daemon.tla are bound to the OBSERVED state after every recorded event and TLC   *)
(* evaluates the property formulas of DaemonProps on the observed behaviour.                    *)
(* The file ($VERIF_TRACE) is a concatenation of traces; each "Begin" event is a process start. *)
(* Linear: one successor per state.                                                             *)
EXTENDS DaemonProps, Json, IOUtils

VARIABLES l

mvars == <<dvars, l>>

Trace == ndJsonDeserialize(IOEnv.VERIF_TRACE)
N == Len(Trace)

FanIds(fs) == {fs[i].id : i \in 1..Len(fs)}
FanOf(fs, id) == fs[CHOOSE i \in 1..Len(fs) : fs[i].id = id]

ConfOf(e) ==
  [fans |-> FanIds(e.fans),
   kind |-> [f \in FanIds(e.fans) |-> FanOf(e.fans, f).kind],
   hasMode |-> [f \in FanIds(e.fans) |-> FanOf(e.fans, f).hasMode],
   hasRpm |-> [f \in FanIds(e.fans) |-> FanOf(e.fans, f).hasRpm],
   cfgMap |-> [f \in FanIds(e.fans) |-> FanOf(e.fans, f).cfgMap],
   cfgMinMax |-> [f \in FanIds(e.fans) |-> FanOf(e.fans, f).cfgMinMax],
   parallel |-> e.parallel,
   \* (the plant, for formulas about what an analysis must find: the fan turns iff pwm > theta, its register keeps multiples of quant and 255)
   theta |-> [f \in FanIds(e.fans) |-> FanOf(e.fans, f).theta],
   quant |-> [f \in FanIds(e.fans) |-> FanOf(e.fans, f).quant],
   \* how the register treats a written value: "floor" (multiples of quant, 255 stays), "ceil" (next multiple, capped at 255), "scale" (v*100/255)
   qmode |-> [f \in FanIds(e.fans) |-> IF "qmode" \in DOMAIN FanOf(e.fans, f) THEN FanOf(e.fans, f).qmode ELSE "floor"],
   cfgStart |-> [f \in FanIds(e.fans) |-> FanOf(e.fans, f).cfgStart]]

\* state after a "Begin" event (a process start); newTrace: the database history starts afresh
BeginState(e, newTrace) ==
  LET c == ConfOf(e) IN
  /\ cf' = c
  /\ ph' = [f \in c.fans |-> "Off"]
  /\ pwm' = [f \in c.fans |-> FanOf(e.fans, f).pwm]
  /\ mode' = [f \in c.fans |-> FanOf(e.fans, f).mode]
  /\ orig' = [f \in c.fans |-> [pwm |-> -1, mode |-> -1]]
  /\ reg' = [f \in c.fans |-> FALSE]
  /\ mtx' = "none" /\ ctx' = "live" /\ proc' = "run" /\ sigs' = 0
  /\ db' = [f \in c.fans |-> [data |-> FanOf(e.fans, f).hadData, map |-> FanOf(e.fans, f).hadMap]]
  /\ cnt' = [f \in c.fans |-> [sweeps |-> 0, meas |-> 0]]
  /\ ana' = [f \in c.fans |-> FALSE]
  /\ faults' = 0
  /\ starts' = IF newTrace THEN 1 ELSE starts + 1
  /\ discarded' = IF newTrace THEN [f \in c.fans |-> FALSE] ELSE discarded
  /\ had' = [f \in c.fans |-> [data |-> FanOf(e.fans, f).hadData, map |-> FanOf(e.fans, f).hadMap \/ c.cfgMap[f]]]

MInit ==
  /\ Trace[1].ev = "Begin"
  /\ l = 2
  /\ LET e == Trace[1]
         c == ConfOf(e) IN
     /\ cf = c
     /\ ph = [f \in c.fans |-> "Off"]
     /\ pwm = [f \in c.fans |-> FanOf(e.fans, f).pwm]
     /\ mode = [f \in c.fans |-> FanOf(e.fans, f).mode]
     /\ orig = [f \in c.fans |-> [pwm |-> -1, mode |-> -1]]
     /\ reg = [f \in c.fans |-> FALSE]
     /\ mtx = "none" /\ ctx = "live" /\ proc = "run" /\ sigs = 0
     /\ db = [f \in c.fans |-> [data |-> FanOf(e.fans, f).hadData, map |-> FanOf(e.fans, f).hadMap]]
     /\ cnt = [f \in c.fans |-> [sweeps |-> 0, meas |-> 0]]
     /\ ana = [f \in c.fans |-> FALSE]
     /\ faults = 0 /\ starts = 1
     /\ discarded = [f \in c.fans |-> FALSE]
     /\ had = [f \in c.fans |-> [data |-> FanOf(e.fans, f).hadData, map |-> FanOf(e.fans, f).hadMap \/ c.cfgMap[f]]]

Keep(vs) == UNCHANGED vs

\* one recorded event; f = e.fan where applicable
Step(e) ==
  CASE e.ev = "Begin" -> BeginState(e, e.newTrace)
    [] e.ev = "Captured" ->
         /\ ph' = [ph EXCEPT ![e.fan] = "Wait"]
         \* the fan's original state is what its registers hold when it is taken over (observed by the harness), not what the
         \* controller says it captured (e.a) - a controller that misreads or rewrites the original mode must not be believed
         /\ orig' = [orig EXCEPT ![e.fan] = [pwm |-> e.pwm, mode |-> IF cf.hasMode[e.fan] THEN e.mode ELSE -1]]
         /\ pwm' = [pwm EXCEPT ![e.fan] = e.pwm] /\ mode' = [mode EXCEPT ![e.fan] = e.mode]
         /\ Keep(<<cf, reg, mtx, ctx, proc, sigs, db, cnt, ana, faults, starts, discarded, had>>)
    [] e.ev = "WaitEnd" ->
         /\ ph' = [ph EXCEPT ![e.fan] = "Load"]
         /\ Keep(<<cf, pwm, mode, orig, reg, mtx, ctx, proc, sigs, db, cnt, ana, faults, starts, discarded, had>>)
    [] e.ev = "AnalysisBegin" ->
         /\ ph' = [ph EXCEPT ![e.fan] = "AnaWait"]
         /\ Keep(<<cf, pwm, mode, orig, reg, mtx, ctx, proc, sigs, db, cnt, ana, faults, starts, discarded, had>>)
    [] e.ev = "AnalysisStart" ->
         /\ ph' = [ph EXCEPT ![e.fan] = "Ana"]
         /\ mtx' = IF cf.parallel THEN mtx ELSE e.fan
         /\ Keep(<<cf, pwm, mode, orig, reg, ctx, proc, sigs, db, cnt, ana, faults, starts, discarded, had>>)
    [] e.ev = "SweepBegin" ->
         /\ ph' = [ph EXCEPT ![e.fan] = IF ph[e.fan] = "Ana" THEN "Sweep" ELSE "MapRun"]
         /\ ana' = [ana EXCEPT ![e.fan] = TRUE]
         /\ cnt' = [cnt EXCEPT ![e.fan].sweeps = @ + 1]
         /\ Keep(<<cf, pwm, mode, orig, reg, mtx, ctx, proc, sigs, db, faults, starts, discarded, had>>)
    [] e.ev = "SweepEnd" ->
         \* (a sweep inside computePwmMap - phase "MapRun" - is that fan's whole analysis: it ends here, still under the
         \*  mutex; the release itself has no hook, and the fan's next event, "Attached", may come after another fan's
         \*  "AnalysisStart")
         /\ ph' = [ph EXCEPT ![e.fan] = IF ph[e.fan] = "Sweep" THEN "Mapped" ELSE IF ph[e.fan] = "MapRun" THEN "Map" ELSE @]
         /\ ana' = [ana EXCEPT ![e.fan] = FALSE]
         /\ Keep(<<cf, pwm, mode, orig, reg, mtx, ctx, proc, sigs, db, cnt, faults, starts, discarded, had>>)
    [] e.ev = "MeasureBegin" ->
         /\ ph' = [ph EXCEPT ![e.fan] = "Meas"]
         /\ ana' = [ana EXCEPT ![e.fan] = TRUE]
         /\ cnt' = [cnt EXCEPT ![e.fan].meas = @ + 1]
         /\ Keep(<<cf, pwm, mode, orig, reg, mtx, ctx, proc, sigs, db, faults, starts, discarded, had>>)
    [] e.ev = "AnalysisEnd" ->
         /\ ph' = [ph EXCEPT ![e.fan] = IF ph[e.fan] = "Meas" THEN "Map" ELSE @]
         /\ ana' = [ana EXCEPT ![e.fan] = FALSE]
         /\ mtx' = IF mtx = e.fan THEN "none" ELSE mtx
         /\ Keep(<<cf, pwm, mode, orig, reg, ctx, proc, sigs, db, cnt, faults, starts, discarded, had>>)
    [] e.ev = "Attached" ->
         /\ ph' = [ph EXCEPT ![e.fan] = "Delay"]
         /\ ana' = [ana EXCEPT ![e.fan] = FALSE]
         /\ Keep(<<cf, pwm, mode, orig, reg, mtx, ctx, proc, sigs, db, cnt, faults, starts, discarded, had>>)
    [] e.ev = "LoopStarted" ->
         /\ ph' = [ph EXCEPT ![e.fan] = "Reg"]
         /\ Keep(<<cf, pwm, mode, orig, reg, mtx, ctx, proc, sigs, db, cnt, ana, faults, starts, discarded, had>>)
    [] e.ev = "CycleEnd" ->
         /\ reg' = [reg EXCEPT ![e.fan] = TRUE]
         /\ pwm' = [pwm EXCEPT ![e.fan] = e.pwm] /\ mode' = [mode EXCEPT ![e.fan] = e.mode]
         /\ faults' = IF e.a[2] = 1 \/ e.a[3] = 1 THEN faults + 1 ELSE faults
         /\ Keep(<<cf, ph, orig, mtx, ctx, proc, sigs, db, cnt, ana, starts, discarded, had>>)
    [] e.ev = "RestoreBegin" ->
         /\ ph' = [ph EXCEPT ![e.fan] = "Rest1"]
         /\ ana' = [ana EXCEPT ![e.fan] = FALSE]
         /\ mtx' = IF mtx = e.fan THEN "none" ELSE mtx
         /\ Keep(<<cf, pwm, mode, orig, reg, ctx, proc, sigs, db, cnt, faults, starts, discarded, had>>)
    [] e.ev = "RestoreEnd" ->
         /\ ph' = [ph EXCEPT ![e.fan] = "Done"]
         /\ pwm' = [pwm EXCEPT ![e.fan] = e.pwm] /\ mode' = [mode EXCEPT ![e.fan] = e.mode]
         /\ Keep(<<cf, orig, reg, mtx, ctx, proc, sigs, db, cnt, ana, faults, starts, discarded, had>>)
    [] e.ev = "W" ->
         /\ pwm' = IF e.reg = "pwm" /\ e.o = "ok" THEN [pwm EXCEPT ![e.fan] = e.eff] ELSE pwm
         /\ mode' = IF e.reg = "mode" /\ e.o = "ok" THEN [mode EXCEPT ![e.fan] = e.eff] ELSE mode
         /\ Keep(<<cf, ph, orig, reg, mtx, ctx, proc, sigs, db, cnt, ana, faults, starts, discarded, had>>)
    [] e.ev = "Poke3" ->
         /\ pwm' = IF e.reg = "pwm" THEN [pwm EXCEPT ![e.fan] = e.val] ELSE pwm
         /\ mode' = IF e.reg = "mode" THEN [mode EXCEPT ![e.fan] = e.val] ELSE mode
         /\ Keep(<<cf, ph, orig, reg, mtx, ctx, proc, sigs, db, cnt, ana, faults, starts, discarded, had>>)
    [] e.ev = "Cancel" ->
         /\ ctx' = "cancelled" /\ sigs' = sigs + 1
         /\ Keep(<<cf, ph, pwm, mode, orig, reg, mtx, proc, db, cnt, ana, faults, starts, discarded, had>>)
    [] e.ev = "RunReturn" ->
         /\ ph' = [ph EXCEPT ![e.fan] = IF e.err THEN "Failed" ELSE @]
         \* the daemon's fan-controller actor (backend.go) panics on ANY error that Run returns: an error returned by a
         \* controller that had been regulating is an abrupt end of the whole daemon (start-up errors: outside C09)
         /\ proc' = IF e.err /\ reg[e.fan] THEN "crashed" ELSE proc
         /\ Keep(<<cf, pwm, mode, orig, reg, mtx, ctx, sigs, db, cnt, ana, faults, starts, discarded, had>>)
    [] e.ev = "Final" ->
         /\ proc' = IF e.crashed THEN "crashed" ELSE "exited"
         /\ pwm' = [f \in cf.fans |-> FanOf(e.regs, f).pwm]
         /\ mode' = [f \in cf.fans |-> FanOf(e.regs, f).mode]
         /\ db' = [f \in cf.fans |-> [data |-> FanOf(e.regs, f).hasData, map |-> FanOf(e.regs, f).hasMap]]
         /\ Keep(<<cf, ph, orig, reg, mtx, ctx, sigs, cnt, ana, faults, starts, discarded, had>>)
    [] e.ev \in {"CliReset", "CliInit"} ->
         /\ db' = [db EXCEPT ![e.fan] = [data |-> e.hasData, map |-> e.hasMap]]
         /\ discarded' = [discarded EXCEPT ![e.fan] = ~(e.hasData /\ e.hasMap)]
         \* (a `fan reset` while the daemon is running discards what this very start characterised: nothing of it is
         \* owed to the database any more, see C15_StartStores)
         /\ cnt' = IF proc = "run" /\ e.ev = "CliReset" /\ e.fan \in cf.fans
                     THEN [cnt EXCEPT ![e.fan] = [sweeps |-> 0, meas |-> 0]] ELSE cnt
         /\ Keep(<<cf, ph, pwm, mode, orig, reg, mtx, ctx, proc, sigs, ana, faults, starts, had>>)
    [] OTHER -> Keep(dvars)     \* RunStart, CycleBegin, RpmBegin, RpmEnd, ...

MNext == /\ l <= N
         /\ l' = l + 1
         /\ Step(Trace[l])

MSpec == MInit /\ [][MNext]_mvars

\* `fan reset` discards both stored entries of the fan (what "until the user discards it" relies on)
C15_ResetDiscards ==
  [][l <= N /\ Trace[l].ev = "CliReset" => db'[Trace[l].fan] = [data |-> FALSE, map |-> FALSE]]_mvars

\* `fan init` characterises the fan and stores the result (PWM map; RPM curve data when the fan has an RPM sensor), so that
\* the daemon's next start does not analyse it a second time
C15_InitStores ==
  [][(l <= N /\ Trace[l].ev = "CliInit" /\ ~Trace[l].err /\ Trace[l].fan \in cf.fans) =>
       (db'[Trace[l].fan].map /\ (cf.hasRpm[Trace[l].fan] => db'[Trace[l].fan].data))]_mvars
\* a start that characterised a fan (swept its PWM map / measured its RPM curve) and got as far as regulating it has stored
\* what it found: at the end of that process the database holds it (else the next start analyses the fan again)
C15_StartStores ==
  [][(l <= N /\ Trace[l].ev = "Final" /\ ~Trace[l].crashed) =>
       \A f \in cf.fans :
          /\ (cnt[f].sweeps > 0 /\ reg[f] => db'[f].map)
          /\ (cnt[f].meas > 0 /\ reg[f] => db'[f].data)]_mvars
\* what the user discarded stays discarded: RPM-curve data of a hwmon fan comes into the database through a measurement only -
\* a process that did not measure the fan (after the last discard) does not leave any behind when it ends
C15_DiscardedStays ==
  [][(l <= N /\ Trace[l].ev = "Final") =>
       \A f \in cf.fans : (cf.kind[f] = "hwmon" /\ cf.hasRpm[f] /\ ~db[f].data /\ cnt[f].meas = 0) => ~db'[f].data]_mvars
\* C13 on a real analysis: the start PWM that the initialization sequence derives (reported by the "Attached" hook) is the
\* lowest value the device supports at which the plant turns - the lowest MEASURED value with a non-zero RPM
LevelsOf(q) == LET qq == IF q < 1 THEN 1 ELSE q IN {k * qq : k \in 0..(254 \div qq)} \cup {255}
\* the value the device holds after `v` was written (the plant of the harness)
DeviceOf(f, v) == LET q == IF cf.quant[f] < 1 THEN 1 ELSE cf.quant[f] IN
  CASE cf.qmode[f] = "scale" -> (v * 100) \div 255
    [] cf.qmode[f] = "ceil"  -> IF v <= 0 THEN 0 ELSE LET w == ((v + q - 1) \div q) * q IN IF w < 255 THEN w ELSE 255
    [] OTHER -> IF v >= 255 THEN 255 ELSE (v \div q) * q
\* the lowest REQUEST at which the plant turns (limits are request values: what the controller asks the fan for)
ExpectedStart(f) == LET S == {v \in 0..255 : DeviceOf(f, v) > cf.theta[f]} IN CHOOSE v \in S : \A w \in S : v <= w
C13_AnalysedLimits ==
  [][(l <= N /\ Trace[l].ev = "Attached" /\ Trace[l].fan \in cf.fans) =>
       LET f == Trace[l].fan IN
       (cf.kind[f] = "hwmon" /\ cf.hasRpm[f] /\ ~cf.cfgMinMax[f] /\ ~cf.cfgStart[f] /\ cnt[f].meas > 0 /\ cf.theta[f] < 255 /\ cf.theta[f] >= 0)
         => Trace[l].a[2] = ExpectedStart(f)]_mvars
\* C16 at the level of the device: while a fan is being swept or measured no OTHER fan's PWM is written, unless that
\* other fan is regulating (its control loop runs) or is being handed back - analysis steps that bypass the hook points
\* (a measurement restarted outside the initialization sequence, ...) still show as register writes
C16_NoForeignAnalysisWrites ==
  [][(l <= N /\ Trace[l].ev = "W" /\ Trace[l].reg = "pwm" /\ ~cf.parallel /\ Trace[l].fan \in cf.fans) =>
       ((\E g \in cf.fans \ {Trace[l].fan} : ana[g]) => ph[Trace[l].fan] \in {"Reg", "Rest1"})]_mvars

Report == l = N + 1 => PrintT(<<"TRACE-DONE", N, "DRIFT", <<>>>>)
TraceAccepted == TLCGet("stats").diameter = N

\* C15 needs the first start only to have measured: a later start must not (observed form)
==============================================================================
