------------------------------ MODULE MC_PwmMap -------------------------------
(* C12 on the definition: the efficient Nearest agrees with the one-line definition, *)
(* supported inputs are applied exactly, requests beyond the extremes use the extreme *)
(* supported input - for all maps over a small key universe and all requests.        *)
EXTENDS PwmMap, TLC

VARIABLES m, req
KeysU == {0, 1, 2, 100, 254, 255}
OutU == {0, 128, 255}
Maps == UNION { [S -> OutU] : S \in (SUBSET KeysU) \ {{}} }
Init == m \in Maps /\ req \in -3..258
Next == UNCHANGED <<m, req>>
Spec == Init /\ [][Next]_<<m, req>>

Ks == DistinctKeys(m)
C12_NearestDef == Nearest(req, Ks) = NearestDef(req, Ks)
C12_Exact == req \in Ks => WriteSetForK(m, Ks, req) = {m[req]}
C12_Extremes == /\ (req <= MinI(Ks) => WriteSetForK(m, Ks, req) = {m[MinI(Ks)]})
                /\ (req >= MaxI(Ks) => WriteSetForK(m, Ks, req) = {m[MaxI(Ks)]})
C12_KeysAreRunStarts ==
  \A k \in DOMAIN m : k \in Ks <=> (\A j \in DOMAIN m : j < k => (\E i \in DOMAIN m : j < i /\ i <= k /\ m[i] # m[j]) \/ FALSE)
                                   \/ k = MinI(DOMAIN m)
==============================================================================
