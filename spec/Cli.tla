----------------------------------- MODULE Cli -----------------------------------
(* The direct fan commands of the command line (cmd/fan: `fan2go fan --id F speed [v]`,   *)
(* `mode [m]`, `rpm`; cmd/sensor: `fan2go sensor --id S`) as actions on the registers of the device - growth beyond the listed   *)
(* properties (DESIGN 10).  A fan is a record of registers:                                  *)
(*   kind "hwmon": pwm, mode (pwm_enable), rpm files       kind "file": pwm (+ rpm) file     *)
(* Each action is one process: it reads the configuration, binds the fan, acts, prints.      *)
(* Deviations of the code from what one might expect are part of the specification:           *)
(*   - `speed v` writes v as given (no range check, no PWM map);                              *)
(*   - `mode m` on a file fan changes nothing and reports mode 1;                             *)
(*   - `mode` accepts 0..2 / disabled, pwm, auto (the usage text says 1..3).                  *)
EXTENDS Integers

ModeNames == [disabled |-> 0, pwm |-> 1, auto |-> 2]
ValidModeArg(a) == a \in {"0", "1", "2", "disabled", "pwm", "auto", "Auto", "PWM"}
ModeOfArg(a) == CASE a \in {"0", "disabled"} -> 0 [] a \in {"1", "pwm", "PWM"} -> 1 [] a \in {"2", "auto", "Auto"} -> 2

\* regs: [kind, pwm, mode, rpm, hasRpm]; result: [regs, exit (0 ok / 1 error), value (what is printed, as a number; -1 none)]
SpeedGet(r) == [regs |-> r, exit |-> 0, value |-> r.pwm]
SpeedSet(r, v) == [regs |-> [r EXCEPT !.pwm = v], exit |-> 0, value |-> -1]
ModeGet(r) == [regs |-> r, exit |-> 0, value |-> IF r.kind = "hwmon" THEN r.mode ELSE 1]
ModeSet(r, a) ==
  IF ~ValidModeArg(a) THEN [regs |-> r, exit |-> 1, value |-> -1]
  ELSE IF r.kind = "hwmon" THEN [regs |-> [r EXCEPT !.mode = ModeOfArg(a)], exit |-> 0, value |-> ModeOfArg(a)]
  ELSE [regs |-> r, exit |-> 0, value |-> 1]
RpmGet(r) == [regs |-> r, exit |-> 0, value |-> IF r.hasRpm THEN r.rpm ELSE -1]

\* `fan2go sensor --id S`: one reading of the sensor's backend (file / hwmon input / command output), printed as an integer;
\* a sensor that cannot be read is an error, never a made-up number.  s: [kind, value, present]
SensorGet(s) == IF s.present THEN [regs |-> s, exit |-> 0, value |-> s.value] ELSE [regs |-> s, exit |-> 1, value |-> -1]

\* ---- properties of the command set (checked on the definitions by MC_Cli) ----
\* reading commands never change the device; a write changes only its own register
ReadOnly(r) == SpeedGet(r).regs = r /\ ModeGet(r).regs = r /\ RpmGet(r).regs = r
WriteLocal(r, v, a) == /\ SpeedSet(r, v).regs.mode = r.mode /\ SpeedSet(r, v).regs.rpm = r.rpm
                       /\ ModeSet(r, a).regs.pwm = r.pwm /\ ModeSet(r, a).regs.rpm = r.rpm
==============================================================================
