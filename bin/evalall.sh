#!/bin/bash
# evaluate all deliverables of a mutation agent: evalall.sh <ID> [checks...]
ID=$1; shift
O=${OUTDIR:-/tmp/mut/$ID.out}
[ -f $O/patch.diff ] && /verif/bin/evalmut.sh $ID $O/patch.diff $O/demo_test.go $O/meta.json $ID-agent${ROUND:-}-1 "$@" 2>&1 | grep "^demo on\|^bin/check\|^RESULT\|VIOLATION" | cut -c1-220
[ -f $O/patch2.diff ] && /verif/bin/evalmut.sh $ID $O/patch2.diff $O/demo2_test.go $O/meta2.json $ID-agent${ROUND:-}-2 "$@" 2>&1 | grep "^demo on\|^bin/check\|^RESULT\|VIOLATION" | cut -c1-220
