#!/bin/bash
# usage: evalmut.sh <PROPERTY> <patch.diff> <demo_test.go> <meta.json> <name> [checks...]
# 1. confirms in a scratch worktree that the change applies, compiles, passes the existing tests, and that the
#    demonstration fails with it and passes without it; 2. runs the /verif checks against /repo with the change applied
#    (undone afterwards); 3. stores the mutant under /verif/seeded/<name>/ with the outcome.
PROP=$1; PATCH=$(readlink -f $2); DEMO=$(readlink -f $3); META=$(readlink -f $4); NAME=$5; shift 5
CHECKS=${@:-$PROP}
export GOFLAGS=-mod=mod GOPROXY=off
W=/dev/shm/verif-mutwt.$$
git -C /repo worktree prune
git -C /repo worktree add -q --detach $W HEAD || exit 2
cleanup() { cd /; git -C /repo worktree remove --force $W 2>/dev/null; rm -rf $W; }
trap cleanup EXIT
cd $W
# make the cgo-bound packages (internal, internal/hwmon, cmd) buildable for demonstrations that live there
go mod edit -replace github.com/md14454/gosensors=/verif/harness/gosensors
DIR=$(head -1 $DEMO | sed -n 's,^// place in: *,,p' | tr -d ' \r')
[ -z "$DIR" ] && DIR=internal/controller
DEMOFILE=$DIR/zz_seeded_demo_test.go
mkdir -p $DIR; cp $DEMO $DEMOFILE
DEMOENV=""; grep -q "testing/synctest" $DEMO && DEMOENV="GOEXPERIMENT=synctest"
RACE=""; grep -q -- "-race" $META && RACE="-race"
# demonstrations that use the instrumentation hooks of the tree are built with its tag
(grep -q -- "-tags verif" $META || grep -q "^//go:build verif" $DEMO) && RACE="$RACE -tags verif"
TESTS=$(grep -o '^func Test[A-Za-z0-9_]*' $DEMO | sed 's/func //' | paste -sd'|')
echo "== demo tests: $TESTS in $DIR"
env $DEMOENV go test $RACE -vet=off -count=1 -run "^($TESTS)\$" ./$DIR/ > /tmp/evalmut.$$.base 2>&1; BASE=$?
git apply $PATCH || { echo "PATCH DOES NOT APPLY"; exit 3; }
go build ./internal/controller/ ./internal/fans/ ./internal/curves/ ./internal/sensors/ ./internal/util/ ./internal/configuration/ ./internal/persistence/ ./internal/control_loop/ 2>&1 | tail -3
env $DEMOENV go test $RACE -vet=off -count=1 -run "^($TESTS)\$" ./$DIR/ > /tmp/evalmut.$$.mut 2>&1; MUT=$?
rm -f $DEMOFILE
go test -vet=off -count=1 ./internal/... 2>&1 | grep -v "^ok\|no test files\|build failed\|gosensors\|sensors.h\|^ *[0-9]* |\|compilation terminated\|#include" > /tmp/evalmut.$$.suite; SUITE=$(grep -c "^--- FAIL\|^FAIL.*[0-9]s$\|^panic" /tmp/evalmut.$$.suite)
if [ $SUITE -ne 0 ]; then
  # the repository's own timing-sensitive tests (internal/curves TestPidCurve*) flake under load:
  # re-run the failing packages alone, up to three times
  PKGS=$(grep "^FAIL.*[0-9]s$" /tmp/evalmut.$$.suite | awk '{print $2}' | sort -u)
  SUITE=0
  for pk in $PKGS; do
    okp=0
    for try in 1 2 3 4 5 6; do
      if nice -n -15 go test -vet=off -count=1 -p 1 $pk > /tmp/evalmut.$$.retry 2>&1; then okp=1; break; fi
    done
    [ $okp = 0 ] && SUITE=$((SUITE+1)) && cat /tmp/evalmut.$$.retry | grep "^--- FAIL" | head -3
  done
fi
echo "demo on unchanged tree: exit $BASE (want 0); demo with change: exit $MUT (want !=0); existing suite failures with change: $SUITE (want 0)"
[ $SUITE -ne 0 ] && cat /tmp/evalmut.$$.suite | head
CONFIRMED=no; [ $BASE -eq 0 ] && [ $MUT -ne 0 ] && [ $SUITE -eq 0 ] && CONFIRMED=yes
echo "confirmed=$CONFIRMED"
cd /verif
RES=""
if [ $CONFIRMED = yes ]; then
  # the checks run against the scratch worktree (with the change applied) through VERIF_REPO, so that
  # several evaluations can run side by side and /repo itself is never touched
  for c in $CHECKS; do
    VERIF_REPO=$W VERIF_REPLAYS=/dev/shm/verif-mut-replays VERIF_EVIDENCE_DIR=/dev/shm/verif-mut-evidence bin/check $c > /tmp/evalmut.$$.check.$c 2>&1; RC=$?; cp /tmp/evalmut.$$.check.$c /dev/shm/verif-scratch/evalmut-$NAME-$c.log
    echo "bin/check $c with the change applied: exit $RC"; grep "VIOLATION\|infra" /tmp/evalmut.$$.check.$c | head -3
    RES="$RES $c:$RC"
  done
  mkdir -p /verif/seeded/$NAME
  cp $PATCH /verif/seeded/$NAME/patch.diff; cp $DEMO /verif/seeded/$NAME/demo_test.go
  python3 - "$META" "$NAME" "$PROP" "$RES" <<'PY'
import json,sys
meta=json.load(open(sys.argv[1])); name=sys.argv[2]
import os
prev='/verif/seeded/%s/meta.json'%name
if os.path.exists(prev):
    # keep the outcome of earlier evaluations (before the checks were strengthened)
    try:
        pm=json.load(open(prev))
        hist=pm.get('earlier_check_results',[])
        if pm.get('check_results') is not None: hist.append(pm['check_results'])
        meta['earlier_check_results']=hist
    except ValueError:
        pass
meta.update(id=name, breaks=sys.argv[3], origin='written by an independent sub-agent given only the property text',
  confirmed='applies, compiles, existing suite passes, demonstration fails with the change and passes without (checked in a scratch worktree)',
  check_results={k:int(v) for k,v in (x.split(':') for x in sys.argv[4].split())})
json.dump(meta,open('/verif/seeded/%s/meta.json'%name,'w'),indent=1)
PY
fi
rm -f /tmp/evalmut.$$.*
echo "RESULT $NAME confirmed=$CONFIRMED $RES"
