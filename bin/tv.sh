#!/bin/sh
# usage: tv.sh <Trace_X> <trace.ndjson> [workdir]  -- run TLC trace validation in a scratch copy of the spec
set -e
MOD=$1; TRACE=$2; WD=${3:-/dev/shm/verif-scratch/tv.$$}
rm -rf "$WD"; mkdir -p "$WD"; cp /verif/spec/*.tla /verif/spec/*.cfg "$WD"/
cd "$WD"
VERIF_TRACE="$TRACE" timeout ${TV_TIMEOUT:-600} tlc -workers 1 -metadir ./meta -config $MOD.cfg $MOD.tla 2>&1 | grep -v "^Linting\|^Semantic\|^Parsing"
