#!/usr/bin/env python3
"""Regenerates /verif/MANIFEST.json from the table below (kept valid at all times)."""
import json, os, subprocess

REPO_HOOK_COMMITS = subprocess.run(['git', '-C', '/repo', 'log', '--format=%H %s'], stdout=subprocess.PIPE, text=True).stdout.splitlines()
hooks = [l.split()[0] for l in REPO_HOOK_COMMITS if l.split(' ', 1)[1].startswith('verif:')]

MC = 'model_checking'
CHECKS = {
 'C01': (MC, '6 (C01)', 'TLC closure of Controller.tla (arbitrary loop output, all histories over corner configurations) + TLC trace validation (conformance to Controller.tla, C01 invariants) of TLC-generated and random histories executed on the real controller',
         'Exhaustive for the modelled corner configurations; real code bound by trace conformance (zero drift expected) and monitored on thousands of histories incl. PID with arbitrary finite gains, dt=0, absurd curve values.'),
 'C02': (MC, '6 (C02)', 'TLC closure of Controller.tla incl. stall episodes + TLC trace validation of stall-heavy real histories (hwmon configured/measured minimum, file, cmd)',
         'As C01; the floor (minimum + number of raises) is an invariant of every explored model state and of every recorded real step.'),
 'C05': (MC, '6 (C05)', 'TLC closure of Controller.tla with ThirdParty environment action + TLC trace validation of real controllers with registers rewritten between cycles',
         'Every interference point between cycles in the model; sampled interference on the real controller, registers and counter checked after every cycle.'),
 'C03': (MC, '6 (C03)', 'TLC exhaustive check of Daemon.tla (signals x phases x original mode/PWM x restore-write outcomes) + TLC monitoring (Monitor_Daemon: variables bound to the observed state, DaemonProps formulas) of the real controller.Run in synctest bubbles and of the real daemon process under real signals',
         'Every interleaving of up to 3 signals with every controller phase and every combination of refused/ignored restore writes in the model; the real controllers are cancelled at every phase with injected driver outcomes, the real daemon is killed with 1-3 real signals; the final registers of every run are checked.'),
 'C04': (MC, '6 (C04)', 'TLC closure of MC_C04 (cycle closed through exact direct / rate-limited / default-PID loop models, arbitrary prior curve trajectories) + TLC trace validation (exact loop conformance, settle/steady/step formulas) of real controllers under the fake clock',
         'Settling bound K(alg), steady value, step bound, monotone approach and bounded PID integral hold in every state of the closed model (all histories over {0,c,255}); the real loops conform step by step to the exact model.'),
 'C06': (MC, '6 (C06)', 'TLC check of the definitional module Curves.tla (range, saturation) + TLC validation of records of real curve evaluations (linear, steps, function graphs checked compositionally, PID on an exact rational grid) against Curves.tla',
         'Every recorded evaluation of the real curves is checked against the exact definition with explicit float envelopes; sensor values cover the integer grid around every threshold and extreme floats.'),
 'C07': (MC, '6 (C07)', 'TLC check of monotonicity on Curves.tla / PwmMap.tla definitions + TLC validation of real ascending sweeps (curves, monotone curve graphs, controller with direct loop over curve values 0..255)',
         'Consecutive monotonicity on dense real sweeps implies monotonicity for all pairs on the grid.'),
 'C08': (MC, '6 (C08)', 'TLC exhaustive check of Smoothing.tla (exact rational average, fault actions) + TLC trace validation of real hwmon/file/cmd sensors polled through the real monitor poll with real read faults',
         'Hull, geometric contraction, fault-is-no-op and never-poisoned hold in every model state (windows 1..4, depth 6) and on every recorded poll (windows 1..50) within the stated projection slack.'),
 'C09': (MC, '6 (C09)', 'TLC exhaustive check of Daemon.tla with fault actions (every placement of up to 2 faults) + TLC monitoring of real closed loops (sensor + monitor + curve + controller.Run + plant) with enumerated injected faults, run in child processes so that a crash is an observation',
         'All single faults (kind x backend combination x curve type x cycle index) in the quick tier, plus pairs in the thorough tier; no-crash and continue-or-hand-back evaluated on every recorded state.'),
 'C11': (MC, '6 (C11)', 'TLC check of Config.tla (validator as implemented vs well-formed / evaluable / documented over enumerated abstract configurations) + TLC validation of records of generated YAML configurations taken through the real loader, validator, instantiation and curve evaluation (child process, crash = observation), and of a further sample taken through the real command `fan2go config validate` and the real daemon (child processes on a fake hwmon tree)',
         'Exhaustive over the abstract two-curve universe and all 3-4 node function graphs; sampled for 1..8 curve configurations through the real YAML path.'),
 'C12': (MC, '6 (C12)', 'TLC check of PwmMap.tla (definition) + TLC validation of request->written vectors recorded from the real ExtractKeysWithDistinctValues / FindClosest / controller.setPwm for all maps over a key universe and random full-size maps, and of the real computePwmMap with a configured map, a stored map, both or neither (hwmon / file / cmd fans)',
         'Exhaustive over all maps of the key universe (4^6 quick, 4^8 thorough) x all requests -50..305.'),
 'C13': (MC, '6 (C13)', 'TLC check of FanLimits.tla (definition and setter semantics, repeated attachment) + TLC validation of records of the real NewFan / AttachFanRpmCurveData / getters (conformance with the model and the C13 formulas) + TLC monitoring of real analyses (controller.Run: sweep, RPM-curve measurement, attachment) behind threshold plants and quantising / rounding / scaled registers',
         'Exhaustive over a 5-key x 5-RPM data universe x 8 configured combinations x neverStop, plus random realistic data with second attachments.'),
 'C14': (MC, '6 (C14)', 'TLC exhaustive check of Persist.tla (operation sequences, damage, crash during save) + TLC trace validation of operation sequences executed on the real persistence over a real bbolt file with full read-back after every step and of workers killed with SIGKILL inside a save',
         'Every returned value of every operation and read-back is compared with the model; crash instants are sampled.'),
 'C15': (MC, '6 (C15)', 'TLC exhaustive check of Daemon.tla over all start/stop/reset/init sequences + TLC monitoring of the real controller.Run restarted on one bbolt database with CLI bodies in between',
         'Sweeps and RPM-curve measurements between process start and first regulation cycle are counted from hook events; reuse, config-map-no-sweep and at-most-once hold in every model state and on every recorded history. The README promise for minPwm+maxPwm is a recorded known finding (D10).'),
 'C16': (MC, '6 (C16)', 'TLC exhaustive check of Daemon.tla (mutex, all interleavings of 2-3 fans) + TLC monitoring of real controllers of 2-4 fans in real time (option false) and in a bubble (option true, overlap observed), and of the real daemon process started on a configuration file with the option false',
         'Mutual exclusion of whole initialisation sequences over all interleavings in the model; real schedules with random start delays and plants of differing settle times.'),
 'C17': (MC, '6 (C17)', 'TLC check of HwmonBind.tla (order independence over all permutations) + TLC validation of records of the real start-up binding on fake hwmon trees (device really read and written on first use); `fan2go detect` as an observer of the same trees (drift only)',
         'Sampled trees and selectors (1..4 chips, channel and index subsets, random enumeration order) against the definitional binding.'),
 'C18': (MC, '6 (C18)', 'TLC validation of records of real executions over the complete owner x group x mode x symlink space against ExecPerm.tla (plus re-check sequences and the config-file rule)',
         'Exhaustive: all 4096 combinations are really executed (or refused) on real files; a marker file tells whether the script ran.'),
 'C19': ('exploration', '6 (C19)', 'TLC check of the timed call machine Exec.tla + TLC validation of real calls (one script per failure mode x 4 timeouts, real time) against duration bound and expected outcomes',
         'Failure modes are enumerated, timing is sampled in real time (margin 1 s): exploration, not proof.'),
 'C20': ('exploration', '6 (C20), 8', 'TLC computes Sync!MayRacePairs from the modelled accesses and lock sets; reports of the Go race detector (stress of all activities in one -race process) are mapped to site-class pairs and validated by TLC against MayRacePairs',
         'Dynamic detection: absence of a report is not a proof. A report outside the pairs the model admits (e.g. after removing a mutex) is a violation; pairs the model admits are genuine defects of the pinned tree recorded as one known finding (D15).'),
 'C10': (MC, '6 (C10)', 'TLC exhaustive exact-arithmetic model MC_C10 (smoothing x plant thresholds x windows) + TLC trace validation of real controllers behind stalling plants',
         'Bounded-response (12n+2 polls), step-by-step progress and termination checked exhaustively on the exact model and on every recorded real step.'),
}

def entry(pid):
    level, ref, tech, text = CHECKS[pid]
    return {
        'property_id': pid,
        'quick_cmd': 'bin/check %s --tier quick' % pid,
        'thorough_cmd': 'bin/check %s --tier thorough' % pid,
        'evidence_file': '/verif/evidence/%s.json' % pid,
        'replay_cmd_template': 'bin/check %s --replay {path}' % pid,
        'engine': 'tlc+harness',
        'level_claimed': {'category': level, 'text': text, 'design_ref': 'DESIGN.md section ' + ref},
        'level_note': 'Trusted: TLC/SANY, the Go 1.26.8 toolchain and testing/synctest fake clock used by the harness, the harness interposer/plant and its projection of controller state into trace fields, the bounded constants of the exhaustive configurations.',
        'technique': tech,
    }

props = [json.loads(l)['id'] for l in open('/verif/properties.jsonl')]
NA_REASON = 'not claimed'
man = {
 'version': 1,
 'setup_cmd': 'bin/setup',
 'hooks': {
   'guard': 'verif (Go build tag)',
   'enable': 'go test -tags verif (harness module /verif/harness with replace github.com/markusressel/fan2go => /repo)',
   'baseline_off_cmd': 'cd /repo && GOFLAGS=-mod=mod go test -vet=off -count=1 ./...',
   'source_commits': hooks,
   'add_only': True,
 },
 'engines': [{'name': 'tlc+harness', 'path': '/verif/bin/check', 'serves_properties': sorted(CHECKS),
              'kind_free_text': 'TLA+ specification (spec/*.tla) model-checked by TLC; Go harness (harness/) drives the real fan2go code from TLC-generated and random schedules; TLC validates recorded traces against the specification and evaluates the property formulas on them'}],
 'checks': [entry(p) for p in props if p in CHECKS],
 'not_applicable': [{'property_id': p, 'reason': NA_REASON} for p in props if p not in CHECKS],
 'notes': 'See DESIGN.md. Exit codes: 0 held, 1 VIOLATION (only from behaviour recorded from the real code), 2 infrastructure problem. known-findings.json lists recorded defects and fixed ones.',
}
json.dump(man, open('/verif/MANIFEST.json', 'w'), indent=1)
print('MANIFEST.json:', len(man['checks']), 'checks,', len(man['not_applicable']), 'not_applicable')
