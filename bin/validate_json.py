#!/usr/bin/env python3
import json, sys, glob
sys.path.insert(0, '/opt/veriftools/pyvenv/lib/python3.11/site-packages')
try:
    import jsonschema
except ImportError:
    import subprocess
    sys.exit(subprocess.call(['python3-vt', __file__] + sys.argv[1:]))
jsonschema.validate(json.load(open('/verif/MANIFEST.json')), json.load(open('/root/.vp/MANIFEST.schema.json')))
sch = json.load(open('/root/.vp/EVIDENCE.schema.json'))
for f in sorted(glob.glob('/verif/evidence/*.json')):
    jsonschema.validate(json.load(open(f)), sch)
    print('ok', f)
print('manifest ok')
