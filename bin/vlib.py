"""Shared machinery for /verif/bin/check: build the harness from /repo's working tree, run TLC
(model checking, trace validation), run harness drivers, collect verdicts, write evidence.

Exit codes (DESIGN.md section 5): 0 property held on everything explored; 1 violation observed on
the real code (VIOLATION line printed); 2 infrastructure problem (never a violation)."""
import concurrent.futures as cf
import hashlib
import json
import os
import re
import shutil
import signal
import subprocess
import sys
import time

VERIF = os.path.dirname(os.path.dirname(os.path.abspath(__file__)))   # /verif, or a snapshot of it (vp run)
REPO = os.environ.get('VERIF_REPO', '/repo')   # overridable for evaluating seeded changes in a scratch worktree
SPEC = os.path.join(VERIF, 'spec')
HARNESS = os.path.join(VERIF, 'harness')
GO = 'go1.26.8'
GOENV = dict(GOFLAGS='-mod=mod', GOPROXY='off', GOSUMDB='off', GOTOOLCHAIN='local')
TLA_JAR = '/opt/veriftools/tla/tla2tools.jar:/opt/veriftools/tla/CommunityModules-deps.jar'


class Infra(Exception):
    """infrastructure failure -> exit 2"""


def log(*a):
    print(*a, flush=True)


class Run:
    """One invocation of a check: scratch directory, tier, seed, timers, evidence accumulator."""

    def __init__(self, pid, tier, seed):
        self.pid = pid
        self.tier = tier
        self.seed = seed
        self.t0 = time.time()
        base = '/dev/shm' if os.path.isdir('/dev/shm') else '/var/tmp'
        self.scratch = os.path.join(base, 'verif.%s.%d' % (pid, os.getpid()))
        self.repo = REPO
        shutil.rmtree(self.scratch, ignore_errors=True)
        os.makedirs(self.scratch)
        self.cov = dict(states=0, transitions=0, traces_validated_against_impl=0, samples=[],
                        model_runs=[], drivers=[], validations=[], drift=[], known_findings=[],
                        evaluations=0, distinct_nontrivial=0)
        self.assumptions = []
        self.violations = []   # (message, replay path)
        self.known = load_known_findings().get(pid, [])
        self.bin = None

    def quick(self):
        return self.tier == 'quick'

    def pick(self, q, t):
        return q if self.tier == 'quick' else t

    def cleanup(self):
        if os.environ.get('VERIF_KEEP'):
            log('scratch kept at', self.scratch)
            return
        shutil.rmtree(self.scratch, ignore_errors=True)

    # ------------------------------------------------------------------ build
    def build(self, race=False):
        """Build the harness test binary from /repo's current working tree (hooks on)."""
        hdir = os.path.join(self.scratch, 'harness')
        if not os.path.isdir(hdir):
            shutil.copytree(HARNESS, hdir, ignore=shutil.ignore_patterns('go.sum', '*.test'))
            shutil.copy(os.path.join(REPO, 'go.sum'), os.path.join(hdir, 'go.sum'))
            if REPO != '/repo':
                gm = os.path.join(hdir, 'go.mod')
                txt = open(gm).read().replace('=> /repo', '=> ' + REPO)
                open(gm, 'w').write(txt)
        out = os.path.join(self.scratch, 'harness.race.test' if race else 'harness.test')
        env = dict(os.environ, **GOENV)
        cmd = [GO, 'test', '-tags', 'verif', '-c', '-o', out]
        if race:
            cmd.insert(2, '-race')
        cmd.append('.')
        t = time.time()
        p = subprocess.run(cmd, cwd=hdir, env=env, stdout=subprocess.PIPE, stderr=subprocess.STDOUT, text=True)
        if p.returncode != 0 or not os.path.exists(out):
            log(p.stdout[-4000:])
            raise Infra('harness build failed (does /repo compile with -tags verif?)')
        log('[build] harness%s built from /repo working tree in %.1fs' % (' (-race)' if race else '', time.time() - t))
        if not race:
            self.bin = out
        return out

    # ------------------------------------------------------------------ TLC
    def spec_dir(self, name):
        d = os.path.join(self.scratch, name)
        os.makedirs(d, exist_ok=True)
        for f in os.listdir(SPEC):
            if f.endswith('.tla') or f.endswith('.cfg'):
                shutil.copy(os.path.join(SPEC, f), d)
        return d

    def tlc(self, module, cfg_text, name, workers=16, env=None, timeout=1800, extra=None, heap=None):
        """Run TLC in a scratch copy of the spec. Returns (returncode, output)."""
        d = self.spec_dir(name)
        cfgfile = os.path.join(d, name + '.cfg')
        with open(cfgfile, 'w') as f:
            f.write(cfg_text)
        cmd = ['java', '-XX:+UseParallelGC']
        if heap:
            cmd.append('-Xmx' + heap)
        cmd += ['-Xss64m', '-Djava.io.tmpdir=' + d, '-cp', TLA_JAR, 'tlc2.TLC', '-workers', str(workers), '-metadir', os.path.join(d, 'meta'),
                '-config', cfgfile]
        if extra:
            cmd += extra
        cmd.append(module + '.tla')
        e = dict(os.environ)
        if env:
            e.update(env)
        try:
            p = subprocess.run(cmd, cwd=d, env=e, stdout=subprocess.PIPE, stderr=subprocess.STDOUT, text=True,
                               timeout=timeout)
        except subprocess.TimeoutExpired as ex:
            out = ex.stdout.decode() if isinstance(ex.stdout, bytes) else (ex.stdout or '')
            with open(os.path.join(d, 'tlc.out'), 'w') as f:
                f.write(out)
            raise Infra('TLC timed out after %ds on %s' % (timeout, name))
        with open(os.path.join(d, 'tlc.out'), 'w') as f:
            f.write(p.stdout)
        return p.returncode, p.stdout

    def model_check(self, module, cfg_text, name, expect_violation=None, workers=16, timeout=3000, extra=None,
                    heap=None):
        """Exhaustive (or simulation) run of a model. A violation in a model is not a verdict about
        the code (verdicts come from real-code traces only): it is reported as an infrastructure
        problem unless the caller handles it (expect_violation = list of allowed names)."""
        t = time.time()
        rc, out = self.tlc(module, cfg_text, name, workers=workers, timeout=timeout, extra=extra, heap=heap)
        st = parse_tlc_stats(out)
        viol = parse_violation(out)
        rec = dict(model=module, config=name, states_generated=st['generated'], distinct_states=st['distinct'],
                   wall_s=round(time.time() - t, 1), violation=viol)
        cov = parse_coverage(out)
        if cov:
            rec['actions'] = cov
        self.cov['model_runs'].append(rec)
        self.cov['states'] += st['distinct']
        self.cov['transitions'] += st['generated']
        log('[model] %s/%s: %d distinct states, %d transitions, %.1fs%s' % (
            module, name, st['distinct'], st['generated'], time.time() - t,
            (' - TLC reports a counterexample to ' + viol) if viol else ''))
        if viol is None and not tlc_completed(out):
            tail = '\n'.join(out.splitlines()[-30:])
            log(tail)
            raise Infra('TLC did not complete on %s/%s' % (module, name))
        if viol and (expect_violation is None or viol not in expect_violation):
            log(compact_counterexample(out))
            raise Infra('model %s/%s violates %s: the specification itself admits a bad state '
                        '(not a verdict about the code)' % (module, name, viol))
        return rec, out

    # ------------------------------------------------------------------ drivers
    def drive(self, test, shards, env_fn, label, timeout=1800, binary=None, parallel=16, crash_formula=None):
        """Run a harness driver as `shards` parallel processes. env_fn(i) -> extra env of shard i.
        Returns the list of trace files (one per shard).
        crash_formula: for properties that say "never crashes": a driver process that dies of a panic / runtime abort
        raised INSIDE fan2go code (not by the harness) is an observation of the real code, reported under that formula."""
        binary = binary or self.bin
        t = time.time()
        outs = []
        procs = []

        def one(i):
            out = os.path.join(self.scratch, '%s.%d.ndjson' % (label, i))
            env = dict(os.environ, VERIF_OUT=out, VERIF_SCRATCH=self.scratch, VERIF_TIER=self.tier)
            env.update({k: str(v) for k, v in env_fn(i).items()})
            logf = os.path.join(self.scratch, '%s.%d.log' % (label, i))
            with open(logf, 'w') as lf:
                try:
                    p = subprocess.run([binary, '-test.run', '^' + test + '$', '-test.timeout', '%ds' % timeout,
                                        '-test.count', '1'],
                                       cwd=self.scratch, env=env, stdout=lf, stderr=subprocess.STDOUT,
                                       timeout=timeout + 30)
                    rc = p.returncode
                except subprocess.TimeoutExpired:
                    rc = -9
            return i, out, rc, logf

        with cf.ThreadPoolExecutor(max_workers=parallel) as ex:
            res = list(ex.map(one, range(shards)))
        for i, out, rc, logf in res:
            if rc != 0:
                text = open(logf).read()
                crash = fan2go_crash(text) if (crash_formula and rc != -9) else None
                if crash:
                    n_lines = count_lines(out) if os.path.exists(out) else 0
                    self.report_violation(crash_formula, out if n_lines else None, n_lines or None,
                                          note='the process died inside fan2go code: ' + crash)
                    if n_lines:
                        outs.append(out)
                    continue
                log(text[-3000:])
                raise Infra('driver %s shard %d exited %s (dead driver is not a verdict)' % (test, i, rc))
            outs.append(out)
        n = sum(count_lines(o) for o in outs)
        self.cov['drivers'].append(dict(driver=test, label=label, shards=shards, events=n,
                                        wall_s=round(time.time() - t, 1)))
        log('[drive] %s x%d: %d events in %.1fs' % (test, shards, n, time.time() - t))
        return outs

    # ------------------------------------------------------------------ trace validation
    def validate(self, module, cfg_text, traces, label, parallel=8, timeout=1800, constants='', heap='4g'):
        records = module.startswith('Rec_')     # record files: the state with position l judges line l itself
        """Run TLC trace validation (conformance + monitors) over each trace file."""
        t = time.time()

        def one(args):
            i, tr = args
            name = '%s_%d' % (label, i)
            rc, out = self.tlc(module, cfg_text, name, workers=1, env=dict(VERIF_TRACE=tr), timeout=timeout,
                               heap=heap)
            return tr, rc, out

        with cf.ThreadPoolExecutor(max_workers=parallel) as ex:
            res = list(ex.map(one, enumerate(traces)))
        total_events = 0
        ntraces = 0
        for tr, rc, out in res:
            events = count_lines(tr)
            total_events += events
            ntraces += count_traces(tr)
            viol = parse_violation(out)
            done = re.search(r'"TRACE-DONE", (\d+), "DRIFT", <<(.*?)>>', out)
            if viol:
                line = last_l(out)
                if records and line is not None:
                    line += 1
                self.report_violation(viol, tr, line, out)
                continue
            if not done:
                tail = '\n'.join(out.splitlines()[-40:])
                log(tail)
                raise Infra('trace validation of %s did not run to the end (TLC error)' % tr)
            if int(done.group(1)) != events:
                raise Infra('trace validation consumed %s of %d lines of %s' % (done.group(1), events, tr))
            if 'Postcondition' in out and 'is false' in out:
                raise Infra('trace validation post-condition failed on %s' % tr)
            d = [int(x) for x in re.findall(r'\d+', done.group(2))]
            if d:
                self.cov['drift'].append(dict(trace=os.path.basename(tr), first_lines=d,
                                              sample=[read_line(tr, k) for k in d[:2]]))
                log('[DRIFT] %s: recorded steps at lines %s are not steps of the specification '
                    '(property formulas still hold on the observed behaviour)' % (os.path.basename(tr), d))
        self.cov['traces_validated_against_impl'] += ntraces
        self.cov['validations'].append(dict(module=module, label=label, files=len(traces), traces=ntraces,
                                            events=total_events, wall_s=round(time.time() - t, 1)))
        log('[trace] %s: %d traces / %d events validated in %.1fs' % (module, ntraces, total_events, time.time() - t))
        return ntraces, total_events

    def report_violation(self, what, tracefile, line, out=None, note=''):
        """A property formula is false on a behaviour recorded from the real code."""
        # known finding?
        ctx = ''
        lines = []
        if tracefile and line:
            lines = trace_of_line(tracefile, line)
            ctx = ' '.join(lines[:1] + [read_line(tracefile, line)])[:3000]
        for kf in self.known:
            if kf.get('status') == 'fixed':
                continue
            if kf['formula'] == what and re.search(kf['match'], ctx):
                msg = 'KNOWN-FINDING: property=%s %s' % (self.pid, kf['what'])
                if msg not in self.cov['known_findings']:
                    self.cov['known_findings'].append(msg)
                    log(msg)
                return
        rdir = os.path.join(os.environ.get('VERIF_REPLAYS', os.path.join(VERIF, 'replays')), self.pid)
        os.makedirs(rdir, exist_ok=True)
        rp = os.path.join(rdir, '%s-seed%s-%d.ndjson' % (self.tier, self.seed, len(self.violations)))
        with open(rp, 'w') as f:
            f.write(json.dumps(dict(ev='ReplayHeader', property=self.pid, formula=what, seed=self.seed,
                                    tier=self.tier, failing_line_in_trace=len(lines), note=note)) + '\n')
            for ln in lines:
                f.write(ln if ln.endswith('\n') else ln + '\n')
        self.violations.append((what, rp))
        log('[violation] %s is false on a behaviour recorded from the real code (%s line %s)%s' % (
            what, tracefile and os.path.basename(tracefile), line, (' ' + note) if note else ''))
        if out:
            log(compact_counterexample(out, last_only=True))

    # ------------------------------------------------------------------ evidence / exit
    def sample(self, obj):
        if len(self.cov['samples']) < 6:
            self.cov['samples'].append(obj)

    def sample_from(self, tracefile, k=3):
        try:
            with open(tracefile) as f:
                for i, ln in enumerate(f):
                    if i >= k:
                        break
                    e = json.loads(ln)
                    if 'map' in e and isinstance(e['map'], list) and len(e['map']) > 8:
                        e['map'] = e['map'][:4] + ['... %d entries' % len(e['map'])]
                    self.sample(e)
        except OSError:
            pass

    def finish(self, level, rule, extra_cov=None, assumptions=None):
        cov = self.cov
        if extra_cov:
            cov.update(extra_cov)
        cov['rule'] = rule
        if not cov['samples']:
            cov['samples'] = ['(no sample recorded)']
        ev = dict(property_id=self.pid, tier=self.tier, seed=self.seed, level=level, coverage=cov,
                  assumptions=(assumptions or []) + self.assumptions,
                  wall_s=round(time.time() - self.t0, 1), violations=len(self.violations))
        evdir = os.environ.get('VERIF_EVIDENCE_DIR', os.path.join(VERIF, 'evidence'))
        os.makedirs(evdir, exist_ok=True)
        with open(os.path.join(evdir, self.pid + '.json'), 'w') as f:
            json.dump(ev, f, indent=1, default=str)
        for what, rp in self.violations:
            print('VIOLATION property=%s replay=%s   (%s)' % (self.pid, rp, what), flush=True)
        self.cleanup()
        if self.violations:
            return 1
        log('[ok] %s %s: property held on everything explored (%.0fs)' % (self.pid, self.tier, time.time() - self.t0))
        return 0


# ---------------------------------------------------------------------- helpers
def load_known_findings():
    p = os.path.join(VERIF, 'known-findings.json')
    if not os.path.exists(p):
        return {}
    with open(p) as f:
        data = json.load(f)
    out = {}
    for e in data.get('findings', []):
        out.setdefault(e['property'], []).append(e)
    return out


def count_lines(path):
    n = 0
    with open(path, 'rb') as f:
        for _ in f:
            n += 1
    return n


def count_traces(path):
    n = 0
    with open(path) as f:
        for ln in f:
            if '"ev":"Init"' in ln or '"ev":"Begin"' in ln or '"ev":"SysInit"' in ln:
                n += 1
    return n if n else (1 if count_lines(path) else 0)


def read_line(path, k):
    with open(path) as f:
        for i, ln in enumerate(f, 1):
            if i == k:
                return ln.strip()[:1500]
    return ''


def trace_of_line(path, k):
    """all lines of the trace (from its Init/Begin event) up to and including line k"""
    lines = []
    framed = False
    with open(path) as f:
        for i, ln in enumerate(f, 1):
            if '"ev":"Init"' in ln or '"ev":"Begin"' in ln or '"ev":"SysInit"' in ln:
                lines = []
                framed = True
            lines.append(ln)
            if i >= k:
                break
    if not framed:          # independent records: the offending record (and its predecessor, e.g. Cfg/CfgEnd pairs)
        lines = lines[-2:]
    return lines


def parse_tlc_stats(out):
    m = re.findall(r'(\d[\d,]*) states generated, (\d[\d,]*) distinct states found', out)
    if not m:
        return dict(generated=0, distinct=0)
    g, d = m[-1]
    return dict(generated=int(g.replace(',', '')), distinct=int(d.replace(',', '')))


def tlc_completed(out):
    return 'Model checking completed. No error has been found.' in out or \
        re.search(r'Finished in', out) is not None and 'Error:' not in out


def parse_violation(out):
    m = re.search(r'Error: Invariant (\S+) is violated', out)
    if m:
        return m.group(1)
    m = re.search(r'Error: Action property (\S+) is violated', out)
    if m:
        return m.group(1)
    m = re.search(r'Error: Temporal properties were violated', out)
    if m:
        return 'temporal'
    return None


def last_l(out):
    """value of the trace position variable l in the last printed state (= offending line + 1)"""
    ls = re.findall(r'^(?:/\\ )?l = (\d+)', out, re.M)
    if not ls:
        return None
    # the violating step is the one that consumed line l-1
    return int(ls[-1]) - 1


def compact_counterexample(out, last_only=False, maxlen=6000):
    """TLC counterexample without the large configuration tables"""
    keep = []
    skip = 0
    for ln in out.splitlines():
        if re.match(r'^\s+\(?\s*-?\d+ :> ', ln) or re.match(r'^\s+-?\d+ :> ', ln):
            skip += 1
            continue
        keep.append(ln[:300])
    txt = '\n'.join(keep)
    i = txt.find('Error:')
    txt = txt[i:] if i >= 0 else txt
    if last_only:
        parts = re.split(r'\n(?=State \d+:)', txt)
        txt = parts[0].split('\n')[0] + '\n' + '\n'.join(parts[-2:]) if len(parts) > 2 else txt
    return txt[:maxlen]


def parse_coverage(out):
    cov = {}
    for m in re.finditer(r'^<(\w+) line \d+, col \d+ to line \d+, col \d+ of module (\w+)>: (\d+):(\d+)', out, re.M):
        cov['%s!%s' % (m.group(2), m.group(1))] = int(m.group(4))
    return cov


def fan2go_crash(text):
    """If the output of a dead Go test process shows a panic or runtime abort whose panicking goroutine was executing
    fan2go code (a frame of github.com/markusressel/fan2go/internal or .../cmd before any harness frame other than the
    caller chain), return a one-line summary; None for harness panics and anything unclear."""
    m = re.search(r'^(panic: .*|fatal error: .*)$', text, re.M)
    if not m:
        return None
    rest = text[m.end():]
    g = re.search(r'^goroutine \d+ .*?:\n(.*?)(?:\n\n|\Z)', rest, re.M | re.S)
    if not g:
        return None
    frames = [ln.strip() for ln in g.group(1).splitlines() if ln and not ln.startswith('\t')]
    # the first frame that belongs to fan2go or to the harness decides (frames of the runtime, the standard library and
    # third-party packages above it were called from there)
    for fr in frames:
        if 'markusressel/fan2go/verifharness' in fr:
            return None          # the harness itself panicked (must(...)): not an observation of fan2go
        if 'markusressel/fan2go/internal' in fr or 'markusressel/fan2go/cmd' in fr:
            return (m.group(1) + ' in ' + fr.split('(')[0])[:300]
    return None


def cfg(spec='Spec', constants=None, invariants=(), properties=(), view=None, constraint=None, post=None,
        init=None, nxt=None, deadlock=False):
    lines = []
    if init:
        lines += ['INIT ' + init, 'NEXT ' + nxt]
    else:
        lines.append('SPECIFICATION ' + spec)
    if constants:
        lines.append('CONSTANTS')
        for k, v in constants.items():
            lines.append('  %s = %s' % (k, v))
    if view:
        lines.append('VIEW ' + view)
    if constraint:
        lines.append('CONSTRAINT ' + constraint)
    lines.append('CHECK_DEADLOCK ' + ('TRUE' if deadlock else 'FALSE'))
    if invariants:
        lines.append('INVARIANTS')
        lines += ['  ' + i for i in invariants]
    if properties:
        lines.append('PROPERTIES')
        lines += ['  ' + p for p in properties]
    if post:
        lines.append('POSTCONDITION ' + post)
    return '\n'.join(lines) + '\n'


def main_wrapper(fn, pid, tier, seed):
    run = Run(pid, tier, seed)

    def on_term(signum, frame):
        run.cleanup()
        sys.exit(2)
    signal.signal(signal.SIGTERM, on_term)
    def verdict_despite(problem):
        # violations that were already established on behaviour recorded from the real code stand, whatever part of the
        # check could not be completed afterwards (typically a vacuity guard that trips because the run ended early)
        log('[infra] %s: %s (after %d violation(s) had been recorded)' % (pid, problem, len(run.violations)))
        try:
            return run.finish('exploration', 'check not completed after violations had been recorded: %s' % problem,
                              dict(evaluations=0, distinct_nontrivial=0), [])
        except Exception:
            for what, rp in run.violations:
                print('VIOLATION property=%s replay=%s   (%s)' % (pid, rp, what), flush=True)
            return 1
    try:
        return fn(run)
    except Infra as e:
        if run.violations:
            return verdict_despite(str(e))
        log('[infra] %s: %s' % (pid, e))
        log('exit 2: infrastructure problem, NOT a verdict about the property')
        if not os.environ.get('VERIF_KEEP'):
            run.cleanup()
        return 2
    except Exception:
        import traceback
        traceback.print_exc()
        if run.violations:
            return verdict_despite('exception in the check script')
        log('exit 2: infrastructure problem, NOT a verdict about the property')
        run.cleanup()
        return 2
