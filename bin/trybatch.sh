#!/bin/bash
# usage: trybatch.sh <ID>...   - quick look: runs bin/check <ID> against each deliverable of /tmp/mut/<ID>.out (no confirmation step)
for id in "$@"; do
  for p in patch patch2; do
    f=/tmp/mut/$id.out${SUFFIX:-}/$p.diff
    [ -f $f ] || continue
    r=$(LINES_OUT=30 /verif/bin/trymut.sh $f $id 2>&1 | grep -c "^VIOLATION")
    e=$(LINES_OUT=3 true)
    echo "TRY $id $p violations=$r"
  done
done
