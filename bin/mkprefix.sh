#!/bin/sh
# Regenerates /verif/seeded/prefix-<Dn>/patch.diff: the behaviour before each "fix:" commit, as a patch
# against /repo HEAD (git revert in a scratch worktree; conflicts resolved by hand-written sed below).
set -e
W=/dev/shm/verif-prefix-wt
rm -rf $W; git -C /repo worktree prune; git -C /repo worktree add -q --detach $W HEAD
mk() { # id commit property description
  id=$1; c=$2; prop=$3; shift 3
  cd $W && git checkout -q --detach HEAD && git reset -q --hard HEAD
  if ! git revert --no-commit $c >/dev/null 2>&1; then
     git revert --abort 2>/dev/null || git reset -q --hard HEAD
     echo "revert of $c conflicts: $id needs a manual patch"; return
  fi
  mkdir -p /verif/seeded/prefix-$id
  git diff HEAD > /verif/seeded/prefix-$id/patch.diff
  git reset -q --hard HEAD
  cat > /verif/seeded/prefix-$id/meta.json <<EOM
{"id": "prefix-$id", "breaks": "$prop", "origin": "behaviour of the pinned tree before fix commit $c (reverse patch)",
 "needs": "$*", "detected_by": "bin/check $prop"}
EOM
  echo "prefix-$id ok"
}
mk D1 ec982a3 C02 "a never-stop fan with minimum > 1 that stalls once; the following cycles then request values far below the minimum"
mk D4 ce6c6ac C10 "hwmon fan, window >= 2, fan that was spinning before it stalls (prior RPM average > 0)"
mk D2 68aa7a2 C04 "fan with max < 255 or min > 0 and the rate-limited or PID algorithm, several consecutive cycles"
mk D3 f825017 C03 "driver that silently ignores the pwm_enable write during restoration (original mode not manual)"
mk D3b eae5502 C03 "a second termination signal while the fans are being restored (slow cmd fan widens the window)"
mk D5 d26cd9d C09 "PID curve whose sensor read fails while regulating"
mk D9 324bd44 C15 "second start of the daemon on the same database"
mk D12 a46a220 C16 "two fans that need analysis with runFanInitializationInParallel=false"
mk D6 b63fd33 C08 "file sensor whose file is missing/empty/garbage for one poll"
mk D7 c942739 C08 "cmd sensor printing nan or inf once"
mk D8 216546f C11 "function curve with an empty member list / linear curve with an empty step list"
mk D11 6170e69 C13 "second attachment of different RPM curve data to the same fan object"
mk D13 41c679e C17 "hwmon sensor entry whose index does not exist on the matching chip"
mk D14 48b6451 C19 "command that cannot be started, or script whose child outlives the deadline"
cd /; git -C /repo worktree remove --force $W
