"""Record-style properties: a definitional TLA+ module is model-checked on a small universe and
records of real-code observations are validated by TLC against it (spec/Rec_*.tla)."""
import re

import vlib


def rec_cfg(module, invariants, constants=None):
    lines = ['SPECIFICATION Spec']
    if constants:
        lines.append('CONSTANTS')
        lines += ['  %s = %s' % kv for kv in constants.items()]
    lines += ['CHECK_DEADLOCK FALSE', 'INVARIANTS', '  Report']
    lines += ['  ' + i for i in invariants]
    lines.append('POSTCONDITION TraceAccepted')
    return '\n'.join(lines) + '\n'


def simple_cfg(invariants=(), properties=(), spec='Spec', constants=None, constraint=None):
    return vlib.cfg(spec=spec, constants=constants, invariants=invariants, properties=properties, constraint=constraint)


def count_lines(traces):
    return sum(vlib.count_lines(t) for t in traces)
