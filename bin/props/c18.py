"""C18 - only root-controlled executables are ever run"""
import vlib
from props import recfam

INV = ['C18_OnlyRootControlled', 'C18_RecheckedEveryTime', 'C18_ConfigFile', 'C18_BareNameChecked', 'C18_CliConfigChecked', 'C18_RelativeRunsChecked', 'C18_BusyNotRun']


def check(run):
    c = vlib.cfg(constants=dict(BugD14='FALSE', WaitDelay='1', MaxT='25'), invariants=['C18_Definition', 'C19_NoOutputWithoutRun'])
    run.model_check('MC_Exec', c, 'mc_exec')
    run.build()
    shards = 16
    traces = run.drive('TestDriveC18', shards, lambda i: dict(VERIF_SEED=run.seed, VERIF_SHARD=i, VERIF_SHARDS=shards), 'c18')
    run.sample_from(traces[0], 2)
    run.validate('Rec_Exec', recfam.rec_cfg('Rec_Exec', INV), traces, 'rec', parallel=8)
    # conformance with Exec.tla in a pass of its own (drift, not a verdict): an allowed, executable file runs and succeeds
    import os
    for t in traces[:4]:
        rc, out = run.tlc('Rec_Exec', recfam.rec_cfg('Rec_Exec', ['C18_AllowedRuns']), 'conf_' + os.path.basename(t), workers=1, env=dict(VERIF_TRACE=t))
        if vlib.parse_violation(out):
            run.cov['drift'].append(dict(trace=os.path.basename(t), note='an allowed executable did not run or returned an error'))
            vlib.log('[DRIFT] %s: an allowed executable did not run or returned an error' % os.path.basename(t))
    n = recfam.count_lines(traces)
    execd = 0
    for t in traces:
        with open(t) as f:
            execd += sum(1 for ln in f if '"executed":true' in ln)
    if n < 4096 or execd < 50:
        raise vlib.Infra('vacuous: %d cases, %d executions' % (n, execd))
    run.cov['traces_validated_against_impl'] = n
    return run.finish('model_checking',
                      'the full space owner {root, other} x group {root, other} x 512 permission modes x {direct path, symlink owned by '
                      'somebody else} through util.SafeCmdExecution / CmdSensor.GetValue / CmdFan.GetPwm / CmdFan.SetPwm on real files created '
                      'with chown/chmod (harness runs as root), a marker file shows whether the script really ran; two consecutive executions '
                      'with a change of owner / group / mode in between; configuration.Validate on real configuration files with and without '
                      'command sensors / fans; commands named without a directory with differing files of that name in $PATH and in the working '
                      'directory (what runs is what must have been checked); TLC checks every record against ExecPerm!Allowed; non-trivial = cases',
                      dict(evaluations=n, distinct_nontrivial=n, cases=n, really_executed=execd, exhaustive=True),
                      ['"other" owner/group = uid/gid 1000', 'a file without any execute bit cannot be started even when the predicate allows it '
                       '(then an error is returned and nothing runs)'])
