"""C13 - measured fan limits follow the RPM curve; configured limits always win"""
import vlib
from props import recfam, dmnfam

INV = ['C13_Derived', 'C13_ConfiguredWins', 'C13_Refuses', 'C13_Conforms']


def check(run):
    run.model_check('MC_FanLimits', recfam.simple_cfg(['C13_ConfiguredWins', 'C13_MinZeroUnlessNeverStop', 'C13_Derived', 'C13_Def'],
                                                      ['C13_RefusalKeeps']), 'mc_fanlimits')
    run.build()
    shards = 16
    traces = run.drive('TestDriveC13', shards,
                       lambda i: dict(VERIF_SEED=run.seed, VERIF_SHARD=i, VERIF_SHARDS=shards, VERIF_N=run.pick(300, 6000)), 'c13')
    run.sample_from(traces[0], 2)
    run.validate('Rec_C13', recfam.rec_cfg('Rec_C13', INV), traces, 'rec', parallel=8)
    # the limits a REAL analysis arrives at: controller.Run with the initialization sequence (sweep, RPM-curve measurement,
    # attachment) behind plants that turn above a threshold and registers that keep only some values; what the "Attached"
    # hook reports is compared with what the definition gives for that plant
    rtr = run.drive('TestDriveC16', 8, lambda i: dict(VERIF_SEED=run.seed * 1000 + 700 + i, VERIF_N=run.pick(3, 30), VERIF_PARALLEL=1,
                                                     VERIF_MAXFANS=3), 'c13run', timeout=3000)
    run.validate('Monitor_Daemon', dmnfam.monitor_cfg([], ['C13_AnalysedLimits']), rtr, 'monrun')
    run.cov['analyses_observed'] = dmnfam.count(rtr, lambda ln: '"ev":"MeasureBegin"' in ln)
    n = recfam.count_lines(traces)
    second = 0
    for t in traces:
        with open(t) as f:
            second += sum(1 for ln in f if '"second":true' in ln)
    run.cov['traces_validated_against_impl'] = n
    return run.finish('model_checking',
                      'FanLimits.tla (definition + setter semantics) model-checked for all data maps over a 3-key x 4-RPM universe, the '
                      'configured/unset combinations, neverStop and two attachments; records of the real fans.NewFan + AttachFanRpmCurveData '
                      '+ getters: ALL data maps over a 5-key x 5-RPM universe (sparse, plateaus, all-zero, single point, fractional RPM) x 8 '
                      'configured combinations x neverStop, plus seeded random realistic / non-monotonic data with a second attachment of '
                      'different data; TLC checks each record against the model (conformance) and the C13 formulas; non-trivial = records',
                      dict(evaluations=n, distinct_nontrivial=n, records=n, with_second_attachment=second, exhaustive=True),
                      ['RPM measurements strictly between 0 and 1 are left out (the statement does not say whether they count as non-zero)',
                       'all-zero data: only "configured values win" and "no crash" are required'])
