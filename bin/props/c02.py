"""C02 - a never-stop fan is never driven below its minimum, and the minimum never drops"""
from props import ctlfam

INV = ['C02_NeverBelowRaisedMin', 'C01_ReqWithinLimits']
PROP = ['C02_OffsetNeverDrops', 'C02_MinNeverDrops', 'C02_RaiseStrictlyHigher', 'C02_RaiseOnlyWhenStalled']


def check(run):
    ctlfam.model(run, INV, PROP, nonvacuity=['NV_NoRaise'])
    traces = ctlfam.drive_and_validate(run, 'C02', INV, PROP, n_hist=run.pick(480, 8000), hist_len=run.pick(60, 120),
                                       replay_num=run.pick(150, 1500), replay_depth=14, trace_only=['C01_ConfiguredLimits'])
    # Run mode: the real controller.Run (start-up path included: attach, limits, the two goroutines) behind stalling plants
    import vlib
    rtraces = run.drive('TestDriveC10Run', 16, lambda i: dict(VERIF_SEED=run.seed * 1000 + 400 + i, VERIF_N=run.pick(3, 60)), 'c02run', timeout=3000)
    run.validate('Monitor_Stall', vlib.cfg(invariants=['Report', 'C02_NeverBelowMinRun'], post='TraceAccepted'), rtraces, 'monstall')
    run.cov['run_mode_scenarios'] = ctlfam.count_events(rtraces, lambda ln: '"ev":"Begin"' in ln)
    cycles = ctlfam.count_events(traces, lambda ln: '"ev":"Cycle"' in ln)
    raises = ctlfam.count_events(traces, lambda ln: '"ev":"Cycle"' in ln and '"avgm2":1000' in ln and '"raises":0' not in ln)
    if raises < 20:
        raise __import__('vlib').Infra('vacuous: only %d raise events observed on the real controller' % raises)
    return run.finish('model_checking',
                      'MC_Controller to closure incl. any number of stall episodes (non-vacuity: a raise is reachable); '
                      'real histories with stall episodes for hwmon (configured / measured minimum), file and cmd fans and all '
                      'control loops, validated by TLC against Controller.tla with the C02 formulas; non-trivial = cycles '
                      'after at least one raise of the minimum',
                      dict(evaluations=cycles, distinct_nontrivial=raises, cycles=cycles, cycles_after_a_raise=raises),
                      ['minimum of the property = GetMinPwm() when regulation starts (configured minPwm, else measured)'])
