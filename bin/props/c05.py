"""C05 - external interference with a fan is undone within one control cycle"""
from props import ctlfam

INV = ['C05_Undone']
PROP = ['C05_Counted', 'C05_CounterOnlyInCycle']


def check(run):
    ctlfam.model(run, INV, PROP, nonvacuity=['NV_NoCount'])
    traces = ctlfam.drive_and_validate(run, 'C05', INV, PROP, n_hist=run.pick(480, 8000), hist_len=run.pick(50, 80),
                                       replay_num=run.pick(150, 1500))
    # Run mode: the real controller.Run (RPM monitor and control loop goroutines, virtual time) with third-party
    # writes at instants between two ticks
    import vlib
    rtraces = run.drive('TestDriveC05Run', 16, lambda i: dict(VERIF_SEED=run.seed * 1000 + 700 + i, VERIF_N=run.pick(4, 60)), 'c05run',
                        timeout=3000)
    rc = vlib.cfg(invariants=['Report', 'C05_UndoneRun', 'C05_CountedRun'], post='TraceAccepted')
    run.validate('Monitor_Interf', rc, rtraces, 'moninterf')
    run.cov['run_mode_third_party_writes'] = ctlfam.count_events(rtraces, lambda ln: '"ev":"Poke3"' in ln)
    pokes = ctlfam.count_events(traces, lambda ln: '"ev":"Poke"' in ln)
    cycles = ctlfam.count_events(traces, lambda ln: '"ev":"Cycle"' in ln)
    return run.finish('model_checking',
                      'MC_Controller to closure with third-party writes (mode 0/2/3 and PWM) between any two cycles; real '
                      'controllers with the harness rewriting pwm / pwm_enable between cycles (every cycle index, modes 0/2/3, '
                      'PWM 0..255, identity / sparse / quantising maps), registers and the third-party counter checked by TLC '
                      'after every cycle; the same against the real controller.Run (concurrent RPM monitor and control loop) with writes placed '
                      'between ticks in virtual time; non-trivial = third-party writes',
                      dict(evaluations=cycles, distinct_nontrivial=pokes, cycles=cycles, third_party_writes=pokes),
                      ['interference lands between two control cycles (a write that lands inside a cycle is overwritten at once '
                       'and cannot be counted by a check that runs once per cycle)'])
