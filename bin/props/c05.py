"""C05 - external interference with a fan is undone within one control cycle"""
from props import ctlfam

INV = ['C05_Undone']
PROP = ['C05_Counted', 'C05_CounterOnlyInCycle']


def check(run):
    ctlfam.model(run, INV, PROP, nonvacuity=['NV_NoCount'])
    traces = ctlfam.drive_and_validate(run, 'C05', INV, PROP, n_hist=run.pick(480, 8000), hist_len=run.pick(50, 80),
                                       replay_num=run.pick(150, 1500))
    pokes = ctlfam.count_events(traces, lambda ln: '"ev":"Poke"' in ln)
    cycles = ctlfam.count_events(traces, lambda ln: '"ev":"Cycle"' in ln)
    return run.finish('model_checking',
                      'MC_Controller to closure with third-party writes (mode 0/2/3 and PWM) between any two cycles; real '
                      'controllers with the harness rewriting pwm / pwm_enable between cycles (every cycle index, modes 0/2/3, '
                      'PWM 0..255, identity / sparse / quantising maps), registers and the third-party counter checked by TLC '
                      'after every cycle; non-trivial = third-party writes',
                      dict(evaluations=cycles, distinct_nontrivial=pokes, cycles=cycles, third_party_writes=pokes),
                      ['interference lands between two control cycles (a write that lands inside a cycle is overwritten at once '
                       'and cannot be counted by a check that runs once per cycle)'])
