"""C03 - stopping regulation hands the fan back or leaves it at full speed"""
import vlib
from props import dmnfam

INV = ['C03_HandBackOrFull', 'C03_AtExit']
PROP = ['C03_OnlyThroughRestore', 'C03_SignalsAbsorbed']


def check(run):
    q = run.quick()
    # (A) every arrival step of up to 3 signals x every phase x original modes/PWMs x driver outcomes
    c = dmnfam.daemon_cfg(fans='F1', has_mode='AllTrue', max_signals=3, outcomes='OutAll', orig_modes='{0, 1, 2, 5}',
                          orig_pwms='{0, 77, 255}', max_faults=1, invariants=INV, properties=PROP)
    run.model_check('MC_Daemon', c, 'c03_1fan')
    c = dmnfam.daemon_cfg(fans='F2', kind='KindMixed', has_mode='ModeMixed', has_rpm='RpmMixed', max_signals=2 if q else 3,
                          outcomes='OutAll', orig_modes='{1, 2}' if q else '{0, 1, 2, 5}', orig_pwms='{77, 255}', max_faults=1,
                          invariants=INV, properties=PROP)
    run.model_check('MC_Daemon', c, 'c03_2fans', timeout=run.pick(900, 7200))
    for nv in ['NV_NoRestore', 'NV_NoModeBack']:
        c2 = dmnfam.daemon_cfg(fans='F1', max_signals=1, outcomes='OutAll', orig_modes='{1, 2}', orig_pwms='{77}', max_faults=1,
                               invariants=[nv])
        r2, _ = run.model_check('MC_Daemon', c2, 'nv_' + nv, expect_violation=[nv])
        if r2['violation'] != nv:
            raise vlib.Infra('vacuous model: %s' % nv)
    # (B)+(C) real controller.Run in bubbles, cancel at every phase, scheduled driver outcomes
    run.build()
    shards = 16
    traces = run.drive('TestDriveC03', shards, lambda i: dict(VERIF_SEED=run.seed * 1000 + i, VERIF_N=run.pick(14, 200)),
                       'c03', timeout=3000)
    run.sample_from(traces[0], 2)
    # process level: the real daemon (cmd.Execute -> RunDaemon) on a fake hwmon tree under 1..3 real signals
    ptraces = run.drive('TestDriveC03Proc', shards, lambda i: dict(VERIF_SEED=run.seed * 1000 + 500 + i, VERIF_N=run.pick(2, 20)),
                        'c03proc', timeout=3000)
    run.sample_from(ptraces[0], 1)
    run.cov['process_level_runs'] = dmnfam.count(ptraces, lambda ln: '"ev":"Begin"' in ln)
    run.cov['process_level_signals'] = dmnfam.count(ptraces, lambda ln: '"ev":"Cancel"' in ln)
    dmnfam.conformance(run, traces)       # bubble traces only: the process-level events carry approximated registers
    traces = traces + ptraces
    run.validate('Monitor_Daemon', dmnfam.monitor_cfg(INV, PROP), traces, 'mon')
    runs = dmnfam.count(traces, lambda ln: '"ev":"Begin"' in ln)
    restores = dmnfam.count(traces, lambda ln: '"ev":"RestoreEnd"' in ln)
    badw = dmnfam.count(traces, lambda ln: '"ev":"W"' in ln and '"rstep":0' not in ln and '"o":"ok"' not in ln)
    if restores < runs // 2 or badw < 5:
        raise vlib.Infra('vacuous: %d restores, %d refused/ignored restore writes observed' % (restores, badw))
    return run.finish('model_checking',
                      'Daemon.tla explored exhaustively: 1 fan (signals<=3, original mode 0/1/2/5, original PWM 0/77/255, every '
                      'combination of ok/fail/ignored on the first two restore writes, control error) and 2 mixed fans; real '
                      'controller.Run of 1..2 fans (hwmon/file/cmd) in synctest bubbles with the context cancelled after the k-th '
                      'hook event (+0..700 ms) over all phases, restore-write outcomes injected by the interposer, stall-at-max and '
                      'curve-failure control errors; the real daemon process (cmd.Execute) on a fake hwmon tree under 1..3 real SIGTERM/SIGINT 0..150 ms apart (also during the start-up wait), exit status and final register files; every recorded state checked by TLC (Monitor_Daemon) against the C03 formulas; '
                      'non-trivial = restore sequences observed',
                      dict(evaluations=runs, distinct_nontrivial=restores, runs=runs, restore_sequences=restores,
                           refused_or_ignored_restore_writes=badw),
                      ['excluded as vacuous: a driver that also refuses the final full-speed write',
                       'termination signals are represented in bubbles by cancelling the shared context (what the signal actor does); '
                       'real signals are exercised by the process-level part'])
