"""C09 - a failing sensor or fan read/write never crashes the daemon"""
import vlib
from props import dmnfam

INV = ['C09_NoCrash', 'C09_ContinueOrHandBack']


def check(run):
    q = run.quick()
    # (A) every placement of one and two faults (write fault: go on; fatal control error: restore, stop this fan)
    c = dmnfam.daemon_cfg(fans='F2', kind='KindMixed', has_mode='ModeMixed', has_rpm='RpmMixed', max_signals=1, outcomes='OutAll',
                          orig_modes='{1, 2}', orig_pwms='{77, 255}', max_faults=2, invariants=INV + ['C03_HandBackOrFull', 'C03_AtExit'])
    run.model_check('MC_Daemon', c, 'c09_faults', timeout=run.pick(600, 3600))
    c2 = dmnfam.daemon_cfg(fans='F1', max_faults=1, outcomes='OutAll', invariants=['NV_NoRestore'])
    r2, _ = run.model_check('MC_Daemon', c2, 'nv_restore', expect_violation=['NV_NoRestore'])
    if r2['violation'] != 'NV_NoRestore':
        raise vlib.Infra('vacuous model')
    # (B)+(C) closed loops with injected faults, in child processes
    run.build()
    shards = 16
    traces = run.drive('TestDriveC09', shards,
                       lambda i: dict(VERIF_SEED=run.seed, VERIF_SHARD=i, VERIF_SHARDS=shards, VERIF_N=run.pick(30, 0),
                                      VERIF_PAIRS=run.pick(0, 1)), 'c09', timeout=3000)
    run.sample_from(traces[0], 2)
    dmnfam.conformance(run, traces)
    run.validate('Monitor_Daemon', dmnfam.monitor_cfg(INV + ['C03_HandBackOrFull'], []), traces, 'mon')
    # regulation ends with a control error and the device refuses every write of the restore sequence: no crash either
    rtr = run.drive('TestDriveC09Restore', 4, lambda i: dict(VERIF_SEED=run.seed * 100 + i, VERIF_N=run.pick(6, 60)), 'c09restore', timeout=1800,
                    crash_formula='C09_NoCrash')
    if rtr:
        run.validate('Monitor_Daemon', dmnfam.monitor_cfg(['C09_NoCrash'], []), rtr, 'monrestore')
    scen = dmnfam.count(traces, lambda ln: '"ev":"Begin"' in ln)
    inj = dmnfam.count(traces, lambda ln: '"ev":"Inject"' in ln)
    ended = dmnfam.count(traces, lambda ln: '"ev":"RestoreEnd"' in ln)
    combos = set()
    import json
    for t in traces:
        with open(t) as f:
            for ln in f:
                if '"ev":"Begin"' in ln:
                    s = json.loads(ln)['scenario']
                    combos.add((s['fan'], s['sensor'], s['curve']))
    if inj < 0.9 * scen or len(combos) < 9:      # (a fault scheduled after regulation of the fan ended is not injected)
        raise vlib.Infra('vacuous: %d injections in %d scenarios, %d backend/curve combinations' % (inj, scen, len(combos)))
    return run.finish('fault_enumeration' if False else 'model_checking',
                      'Daemon.tla with up to 2 faults at any step (write fault -> regulation continues; fatal control error -> restore, '
                      'stop this fan) for 2 mixed fans; real closed loops (sensor hwmon/file/cmd + real sensor monitor + curve linear/PID/'
                      'function over both + controller.Run of a hwmon/file/cmd fan) in bubbles inside a child process, enumerated fault kinds '
                      '(sensor read fail/garbage, RPM read, PWM read, PWM write, command not startable) x cycle index 0/1/3 (thorough: plus a '
                      'second fault), a crash of the child is recorded as an observation; TLC checks no-crash and continue-or-hand-back '
                      'on every recorded state; non-trivial = fault injections',
                      dict(evaluations=scen, distinct_nontrivial=inj, scenarios=scen, injections=inj,
                           backend_curve_combinations=len(combos), regulation_ended_by_restore=ended),
                      ['faults of cmd backends last for a window of virtual time (scripts consult a control file), faults of hwmon/file '
                       'backends hit the next 1..3 accesses of the register'])
