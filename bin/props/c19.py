"""C19 - external commands cannot hang or crash fan2go"""
import vlib
from props import recfam

INV = ['C19_ReturnsInTimeObs', 'C19_NoPanicObs', 'C19_TrimmedOutput', 'C19_Conforms']


def check(run):
    c = vlib.cfg(constants=dict(BugD14='FALSE', WaitDelay='1', MaxT='25'),
                 invariants=['C19_NoPanic', 'C19_ReturnsInTime', 'C19_Result', 'C19_NoOutputWithoutRun'])
    run.model_check('MC_Exec', c, 'mc_exec')
    run.build()
    shards = 8      # real time: limited parallelism so that load cannot fake a slow return
    traces = run.drive('TestDriveC19', shards, lambda i: dict(VERIF_SEED=run.seed, VERIF_SHARD=i, VERIF_SHARDS=shards, VERIF_N=run.pick(1, 5)),
                       'c19', parallel=8, timeout=3000, crash_formula='C19_NoPanicObs')
    if run.violations and not traces:
        # every driver process died inside fan2go code before it could record anything: that is the observation
        return run.finish('exploration', 'driver processes died of a panic raised inside fan2go code', dict(evaluations=0, distinct_nontrivial=0), [])
    run.sample_from(traces[0], 3)
    run.validate('Rec_Exec', recfam.rec_cfg('Rec_Exec', INV), traces, 'rec', parallel=8)
    import os
    for t in traces[:3]:
        rc, out = run.tlc('Rec_Exec', recfam.rec_cfg('Rec_Exec', ['C19_HealthySucceeds']), 'conf_' + os.path.basename(t), workers=1, env=dict(VERIF_TRACE=t))
        if vlib.parse_violation(out):
            run.cov['drift'].append(dict(trace=os.path.basename(t), note='a healthy command returned an error'))
            vlib.log('[DRIFT] %s: a healthy command returned an error' % os.path.basename(t))
    n = recfam.count_lines(traces)
    modes = set()
    import json
    slow = 0
    for t in traces:
        with open(t) as f:
            for ln in f:
                e = json.loads(ln)
                modes.add(e['mode'])
                if e['dur'] >= e['timeout']:
                    slow += 1
    if (len(modes) < 17 or slow < 8) and not run.violations:
        raise vlib.Infra('vacuous: %d failure modes, %d calls that ran into their deadline' % (len(modes), slow))
    run.cov['traces_validated_against_impl'] = n
    return run.finish('exploration',
                      'Exec.tla call machine (permission check, start failure, exit, deadline kill, pipe held by a grandchild, WaitDelay) '
                      'model-checked over the product of parameters; one real script per failure mode (non-zero exit with/without output, '
                      'killed by signal, not executable, bad format, missing, bad interpreter, sleeping beyond the deadline, exec sleep, '
                      'grandchild holding stdout, ignoring SIGTERM, empty / non-numeric / 3 MB output, output then sleep) x timeouts '
                      '0.2/0.5/1/2 s in real time, plus the cmd sensor wrapper; TLC checks duration <= timeout + 1 s, outcome in '
                      '{output, error}, trimming, and the expected outcome per mode; non-trivial = calls that ran into their deadline',
                      dict(evaluations=n, distinct_nontrivial=slow, calls=n, failure_modes=len(modes), calls_hitting_deadline=slow),
                      ['wall-clock measurements on a loaded machine: margin 1 s, at most 8 calls in parallel',
                       '"vanished between check and start" is represented by a missing file and by a file that cannot be started'])
