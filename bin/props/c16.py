"""C16 - with parallel initialisation disabled, fans are analysed one at a time"""
import vlib
from props import dmnfam

INV = ['C16_OneAtATime', 'C16_SequencesDisjoint']


def check(run):
    q = run.quick()
    # (A) all interleavings of 2 (quick) / 3 (thorough) fans that need analysis, mutex as coded
    c = dmnfam.daemon_cfg(fans='F2' if q else 'F3', kind='KindMixed', has_mode='ModeMixed', has_rpm='RpmMixed', parallel='FALSE',
                          max_starts=2, invariants=INV + ['C16_MutexHeld', 'C15_AtMostOnce'])
    run.model_check('MC_Daemon', c, 'c16_serial', timeout=run.pick(600, 3600))
    c = dmnfam.daemon_cfg(fans='F2' if q else 'F3', kind='KindHw', parallel='FALSE', max_starts=1,
                          invariants=INV + ['C16_MutexHeld'])
    run.model_check('MC_Daemon', c, 'c16_serial_hw', timeout=run.pick(600, 3600))
    # option true: overlap must be reachable (non-vacuity)
    c = dmnfam.daemon_cfg(fans='F2', kind='KindHw', parallel='TRUE', invariants=['NV_NoOverlap'])
    r2, _ = run.model_check('MC_Daemon', c, 'c16_parallel', expect_violation=['NV_NoOverlap'])
    if r2['violation'] != 'NV_NoOverlap':
        raise vlib.Infra('vacuous: overlap not reachable with the option true')
    # (B)+(C) real controllers
    run.build()
    serial = run.drive('TestDriveC16', run.pick(8, 16),
                       lambda i: dict(VERIF_SEED=run.seed * 1000 + i, VERIF_N=run.pick(1, 3), VERIF_PARALLEL=0,
                                      VERIF_MAXFANS=(2 + i % 2) if run.quick() else 4, **({'VERIF_EXACTFANS': '1'} if run.quick() else {})),
                       'c16serial', timeout=3000)
    run.sample_from(serial[0], 2)
    dmnfam.conformance(run, serial)
    run.validate('Monitor_Daemon', dmnfam.monitor_cfg(INV, ['C16_NoForeignAnalysisWrites']), serial, 'mon')
    par = run.drive('TestDriveC16', 8, lambda i: dict(VERIF_SEED=run.seed * 1000 + 100 + i, VERIF_N=run.pick(4, 40), VERIF_PARALLEL=1,
                                                      VERIF_MAXFANS=4), 'c16par', timeout=3000)
    # with the option true the observed analyses overlap (the monitor's non-vacuity probe must fire)
    rc, out = run.tlc('Monitor_Daemon', dmnfam.monitor_cfg(['NV_NoOverlap'], []), 'nv_par', workers=1,
                      env=dict(VERIF_TRACE=par[0]), timeout=600)
    if vlib.parse_violation(out) != 'NV_NoOverlap':
        raise vlib.Infra('vacuous: no overlapping analyses observed with runFanInitializationInParallel=true')
    run.validate('Monitor_Daemon', dmnfam.monitor_cfg(['C15_AtMostOnce'], []), par, 'monpar')
    # process level: the real daemon reads the option from a configuration file (loader, start-up code, controllers)
    ptr = run.drive('TestDriveC16Proc', 2, lambda i: dict(VERIF_SEED=run.seed * 2 + i, VERIF_N=run.pick(1, 4)), 'c16proc', timeout=3000)
    run.validate('Monitor_Daemon', dmnfam.monitor_cfg(INV, []), ptr, 'monproc')
    run.cov['process_level_starts'] = dmnfam.count(ptr, lambda ln: '"ev":"Begin"' in ln)
    sched = dmnfam.count(serial, lambda ln: '"ev":"Begin"' in ln)
    ana = dmnfam.count(serial, lambda ln: '"ev":"AnalysisStart"' in ln or '"ev":"SweepBegin"' in ln)
    return run.finish('model_checking',
                      'Daemon.tla with the mutex where the code takes it, all interleavings / start orders of 2 (quick) or 3 '
                      '(thorough) fans that need analysis (overlap reachable with the option true); real controllers of 2..4 fans '
                      '(hwmon: sweep + RPM curve measurement, file: sweep) started with random relative delays behind plants of '
                      'differing settle times, in REAL time with the option false, in a bubble with the option true (overlap '
                      'observed), and the real daemon process on a configuration file (two hwmon fans / a hwmon and a command fan, nothing stored); '
                      'analysis intervals from hook events in linearization order, checked by TLC; '
                      'non-trivial = analysis phases (sweeps / sequences) observed with the option false',
                      dict(evaluations=sched, distinct_nontrivial=ana, schedules_serial=sched, analysis_phases=ana,
                           schedules_parallel=dmnfam.count(par, lambda ln: '"ev":"Begin"' in ln)),
                      ['real-time runs: verdict from event order (sequence numbers under the recorder mutex), not from wall-clock time'])
