"""C14 - stored fan data round-trips and is isolated per fan and per kind"""
import vlib
from props import recfam

INV = ['C14_CrashAtomicObs']
PROP = ['C14_LoadObserved', 'C14_NoErrors']
CONSTS = {'Kinds': '{"data", "map"}', 'FanIds': '{"a", "b", "c"}', 'Values': '{"v1", "v2", "v3"}'}


def check(run):
    c = vlib.cfg(constants={'Kinds': '{"data", "map"}', 'FanIds': '{"a", "b"}' if run.quick() else '{"a", "b", "c"}',
                            'Values': '{"v1", "v2"}', 'Depth': str(run.pick(5, 6))},
                 invariants=['C14_TypeOK'],
                 properties=['C14_Isolation', 'C14_LoadReturnsStored', 'C14_CorruptDiscarded', 'C14_DeleteIdempotent', 'C14_CrashAtomic'])
    run.model_check('MC_Persist', c, 'mc_persist', timeout=run.pick(600, 7200))
    c2 = vlib.cfg(constants={'Kinds': '{"data"}', 'FanIds': '{"a"}', 'Values': '{"v1"}', 'Depth': '4'}, invariants=['NV_NoDiscard'])
    r2, _ = run.model_check('MC_Persist', c2, 'nv_discard', expect_violation=['NV_NoDiscard'])
    if r2['violation'] != 'NV_NoDiscard':
        raise vlib.Infra('vacuous model')
    run.build()
    shards = 16
    traces = run.drive('TestDriveC14', shards,
                       lambda i: dict(VERIF_SEED=run.seed * 1000 + i, VERIF_N=run.pick(20, 320), VERIF_LEN=run.pick(12, 20),
                                      VERIF_KILLS=run.pick(8, 200)), 'c14', timeout=3000)
    run.sample_from(traces[0], 4)
    c3 = vlib.cfg(spec='TSpec', constants=CONSTS, invariants=['Report'] + INV, properties=PROP, post='TraceAccepted')
    run.validate('Trace_Persist', c3, traces, 'tv')
    ops = kills = damage = 0
    for t in traces:
        with open(t) as f:
            for ln in f:
                if '"probe":true' in ln:
                    continue
                if '"ev":"Op"' in ln:
                    ops += 1
                if '"op":"crashsave"' in ln:
                    kills += 1
                if '"op":"damage"' in ln:
                    damage += 1
    if kills < 20 or damage < 20:
        raise vlib.Infra('vacuous: %d kills inside a save, %d damaged entries' % (kills, damage))
    return run.finish('model_checking',
                      'Persist.tla: all operation sequences (save / load / delete / damage / crash during save) to depth %d over 2 kinds x '
                      '2-3 fans x 2 values; random operation sequences on the real persistence over a real bbolt file (3 fan ids, both kinds, '
                      'values with negative keys / fractional / huge numbers / empty map, entries damaged directly through bbolt, fresh '
                      'persistence objects) with a full read-back of all six entries after every step; worker processes killed with SIGKILL '
                      '0..3 ms into a save, followed by a read-back; TLC replays every sequence in the model and checks each returned value; '
                      'non-trivial = operations other than read-back loads' % run.pick(5, 6),
                      dict(evaluations=ops, distinct_nontrivial=ops, operations=ops, kills_inside_a_save=kills, damaged_entries=damage),
                      ['atomicity of a transaction is bbolt\'s; kill instants are sampled, not enumerated'])
