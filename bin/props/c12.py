"""C12 - the fan receives the nearest value it supports"""
import vlib
from props import recfam

INV = ['C12_SupportedInputs', 'C12_WrittenIsNearest', 'C12_FindClosest', 'C12_ExactAndExtremes', 'C12_SequenceReceives', 'C12_ConfiguredMapIsUsed']
CONF = ['C12_ConformsCoded']


def check(run):
    # (A) the definition itself: efficient form = one-line definition, exactness, extremes
    run.model_check('MC_PwmMap', recfam.simple_cfg(['C12_NearestDef', 'C12_Exact', 'C12_Extremes']), 'mc_pwmmap', timeout=1800)
    # (B)+(C) real ExtractKeysWithDistinctValues / FindClosest / controller.setPwm over enumerated and random maps
    run.build()
    shards = 16
    traces = run.drive('TestDriveC12', shards,
                       lambda i: dict(VERIF_SEED=run.seed, VERIF_SHARD=i, VERIF_SHARDS=shards, VERIF_UNIVERSE=run.pick(6, 8),
                                      VERIF_N=run.pick(15, 320)), 'c12')
    run.sample_from(traces[0], 1)
    run.validate('Rec_C12', recfam.rec_cfg('Rec_C12', INV), traces, 'rec', parallel=8)
    # conformance with the tie-breaking of the code's model in a pass of its own (drift, not a verdict)
    import os
    for t in traces[:2]:
        rc, out = run.tlc('Rec_C12', recfam.rec_cfg('Rec_C12', CONF), 'conf_' + os.path.basename(t), workers=1, env=dict(VERIF_TRACE=t))
        if vlib.parse_violation(out):
            run.cov['drift'].append(dict(trace=os.path.basename(t), note='FindClosest tie-breaking differs from the model (larger neighbour)'))
            vlib.log('[DRIFT] FindClosest tie-breaking differs from NearestCoded')
    # where the map comes from (configured / stored / swept): the stored-or-swept part is conformance (drift)
    rc, out = run.tlc('Rec_C12', recfam.rec_cfg('Rec_C12', ['G12_StoredOrSwept']), 'conf_mapsrc', workers=1, env=dict(VERIF_TRACE=traces[0]))
    if vlib.parse_violation(out):
        run.cov['drift'].append(dict(trace=os.path.basename(traces[0]), note='without a configured map the controller does not use the stored / swept one'))
        vlib.log('[DRIFT] map source: without a configured map the controller does not use the stored / swept one')
    srcs = sum(1 for ln in open(traces[0]) if '"ev":"MapSrc"' in ln)
    if srcs < 12:
        raise vlib.Infra('vacuous: %d map-source records' % srcs)
    run.cov['map_source_cases'] = srcs
    n = (recfam.count_lines(traces) - srcs) // 4     # one Map and three Seq records per map
    run.cov['traces_validated_against_impl'] = n
    return run.finish('model_checking',
                      'PwmMap.tla (definition) model-checked for all maps over a 6-key universe x 3 outputs x requests -3..258; records '
                      'of the real code for ALL maps over a key universe of %d positions (incl. adjacent keys, 0, 255) x outputs {0,128,255} '
                      'plus seeded random full-size / constant / single-entry / non-monotonic maps, each with the written value for every '
                      'request -50..305 through the controller\'s setPwm on a real hwmon fan, and a 40-request sequence without resetting the '
                      'register (fan showing what the previous request or a third party left); the real computePwmMap for hwmon / file / cmd fans '
                      'with a configured map, a stored map, both or neither; TLC checks every entry against the definition; '
                      'non-trivial = maps' % run.pick(6, 8),
                      dict(evaluations=n * 396, distinct_nontrivial=n, maps=n, requests_per_map=356, exhaustive=True),
                      ['outputs are PWM values (0..255); negative outputs (the code\'s -1 marker) are outside the property\'s domain'])
