"""C07 - hotter never means slower"""
import vlib
from props import recfam, sysfam

INV = ['C07_LinearMonotone', 'C07_StepsMonotone', 'C07_GraphMonotone', 'C07_CtlMonotone', 'C07_CtlRateMonotone', 'C07_ConcurrentMonotone']


def check(run):
    run.model_check('MC_Curves', recfam.simple_cfg(['C07_Monotone', 'C07_FnMonotone', 'C07_RescaleMonotone']), 'mc_curves')
    run.build()
    shards = 16
    traces = run.drive('TestDriveCurves', shards, lambda i: dict(VERIF_SEED=run.seed + 77, VERIF_SHARD=i, VERIF_N=run.pick(25, 1500)),
                       'curves', timeout=3000)
    ctl = run.drive('TestDriveC07Ctl', shards, lambda i: dict(VERIF_SEED=run.seed * 1000 + i, VERIF_N=run.pick(12, 400)), 'ctlsweep', timeout=3000)
    run.sample_from(ctl[0], 1)
    # several fans (goroutines) evaluating one monotone graph at the same time while the temperatures rise
    ctl += run.drive('TestDriveC07Conc', 4, lambda i: dict(VERIF_SEED=run.seed * 31 + i, VERIF_N=run.pick(25, 400)), 'conc', timeout=3000)
    run.validate('Rec_Curves', recfam.rec_cfg('Rec_Curves', INV + ['C06_Linear', 'C06_Steps', 'C06_Graph']), traces + ctl, 'rec', parallel=8, timeout=3000)
    # end to end (last clause of the property): System.tla = smoothing o curves o controller; exhaustive small instance,
    # then real pipelines driven by polls and cycles: a temperature rise alone never lowers the PWM a fan is given
    sysfam.model(run)
    _, cycles = sysfam.traces(run, [], ['C07_EndToEndObs'])
    run.cov['system_cycles'] = cycles
    sweeps = 0
    for t in traces + ctl:
        with open(t) as f:
            for ln in f:
                if '"ev":"Lin"' in ln or '"ev":"Steps"' in ln or '"ev":"CtlSweep"' in ln or ('"ev":"Graph"' in ln and '"mono":true' in ln):
                    sweeps += 1
    run.cov['traces_validated_against_impl'] = sweeps
    return run.finish('model_checking',
                      'Curves.tla: monotonicity of linear min/max curves, non-decreasing step sets, the monotone-preserving aggregates and of '
                      'rescale + nearest-supported-value checked on the definitions; real sweeps: every linear curve over an ascending '
                      'temperature grid (1 m-degree steps around every threshold, 100 m-degree elsewhere), monotone curve graphs along '
                      'ascending sensor paths, and the real controller (direct algorithm) over curve values 0..255 for sampled limits and '
                      'non-decreasing maps; TLC checks consecutive monotonicity (hence all pairs) and the definition; end to end: System.tla '
                      '(smoothing, curves, controller composed) model-checked on a small instance and real pipelines built by the start-up code '
                      'driven by interleaved polls and cycles (C07_EndToEndObs: during a stretch of rising readings no fan is given a lower PWM); '
                      'non-trivial = sweeps',
                      dict(evaluations=sweeps, distinct_nontrivial=sweeps, sweeps=sweeps),
                      ['step sets with decreasing speeds and difference/delta functions are outside the property'])
