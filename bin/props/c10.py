"""C10 - a stalled never-stop fan is noticed and pushed within a bounded time"""
import vlib
from props import ctlfam

INV = ['C02_NeverBelowRaisedMin']
PROP = ['C10_BoundedResponse', 'C10_PushedOrReported', 'C10_ErrorOnlyAtMax', 'C02_RaiseStrictlyHigher', 'C04_NoRaiseWhileTurning']


def check(run):
    consts = dict(ctlfam.BUGS, Tier='"%s"' % run.tier)
    c = vlib.cfg(constants=consts, invariants=['C10_Terminates'] + INV,
                 properties=PROP + ['C10_ReportedAtMax'], constraint='Explore')
    run.model_check('MC_C10', c, 'mc_c10', timeout=run.pick(600, 3600))
    for nv in ['NV_NoError', 'NV_NoRaise', 'NV_NeverSpins']:
        c2 = vlib.cfg(constants=consts, invariants=[nv], constraint='Explore')
        r2, _ = run.model_check('MC_C10', c2, 'nv_' + nv, expect_violation=[nv], timeout=600)
        if r2['violation'] != nv:
            raise vlib.Infra('vacuous model: %s not reachable' % nv)
    traces = ctlfam.drive_and_validate(run, 'C10', INV, PROP, n_hist=run.pick(160, 6000), hist_len=run.pick(250, 900))
    # Run mode: RPM monitor and control loop as the two concurrent goroutines of the real controller.Run
    rtraces = run.drive('TestDriveC10Run', 16, lambda i: dict(VERIF_SEED=run.seed * 1000 + 300 + i, VERIF_N=run.pick(3, 80)), 'c10run',
                        timeout=3000)
    rc = vlib.cfg(invariants=['Report', 'C02_NeverBelowMinRun'], properties=['C10_BoundedResponseRun', 'C10_ErrorOnlyAtMaxRun', 'C10_MonitorAlive', 'C10_LadderCompletes'],
                  post='TraceAccepted')
    run.validate('Monitor_Stall', rc, rtraces, 'monstall', parallel=6, timeout=3000, heap='8g')
    run.cov['run_mode_scenarios'] = ctlfam.count_events(rtraces, lambda ln: '"ev":"Begin"' in ln)
    run.cov['run_mode_stalls_reported'] = ctlfam.count_events(rtraces, lambda ln: '"ev":"CycleEnd"' in ln and '"a":[-1,1,0]' in ln)
    errs = ctlfam.count_events(traces, lambda ln: '"ev":"Cycle"' in ln and '"err":true' in ln)
    raises = ctlfam.count_events(traces, lambda ln: '"ev":"Cycle"' in ln and '"avgm2":1000' in ln and '"raises":0' not in ln)
    polls = ctlfam.count_events(traces, lambda ln: '"ev":"Rpm"' in ln)
    if errs < 3 or raises < 50:
        raise vlib.Infra('vacuous: %d stall reports / %d raises observed' % (errs, raises))
    return run.finish('model_checking',
                      'MC_C10: exact smoothing arithmetic x threshold plants x windows x prior averages explored exhaustively '
                      '(bounded response, step-by-step progress, termination in rotation or reported stall); real controllers '
                      '(hwmon/file/cmd) behind threshold/never-turning plants, windows 1..50, prior averages 0..20000 RPM, polls and '
                      'cycles interleaved in lock-step, and the real controller.Run (RPM monitor and control loop as concurrent goroutines in a '
                      'bubble) behind the same plants; TLC checks the poll bound 12n+2 and the ladder on every recorded step; '
                      'non-trivial = raises of the request observed',
                      dict(evaluations=polls, distinct_nontrivial=raises, rpm_polls=polls, raises=raises, stalls_reported_at_max=errs),
                      ['bound on polls: 12*rpmRollingWindowSize+2 (covers prior averages up to 160000 RPM)',
                       'at least one control cycle runs between two RPM polls (tick rates 200 ms vs 1 s)'])
