"""The composed data path (spec/System.tla): exhaustive small instance + real executions of the whole pipeline
(sensors -> curves -> fans, built by the daemon's start-up code) validated by Trace_System."""
import vlib


def trace_cfg(invariants, properties):
    lines = ['SPECIFICATION TSpec', 'CHECK_DEADLOCK FALSE', 'INVARIANTS', '  Report']
    lines += ['  ' + i for i in invariants]
    if properties:
        lines.append('PROPERTIES')
        lines += ['  ' + p for p in properties]
    lines.append('POSTCONDITION TraceAccepted')
    return '\n'.join(lines) + '\n'


def model(run):
    consts = dict(MaxSteps=run.pick('5', '6'), Tier='"%s"' % run.tier)
    body = vlib.cfg(constants=consts, invariants=['Sys_Range', 'Sys_SharedAgree', 'Sys_Fresh'], properties=['C07_EndToEnd', 'Sys_Isolation'])
    r, _ = run.model_check('MC_System', body, 'mc_system', timeout=run.pick(600, 3600))
    # non-vacuity: in the explored graph a fan's PWM really falls, and really rises during a rising stretch
    for nv in ('NV_NeverFalls', 'NV_NeverRisesUnderUp'):
        r2, _ = run.model_check('MC_System', vlib.cfg(constants=dict(MaxSteps='5', Tier='"quick"'), properties=[nv]), 'nv_' + nv, expect_violation=[nv], timeout=600)
        if r2['violation'] != nv:
            raise vlib.Infra('vacuous MC_System (%s holds)' % nv)
    return r


def traces(run, invariants, properties, label='system'):
    """drive the real pipeline and validate; returns (traces, cycles)"""
    shards = 16
    trs = run.drive('TestDriveSystem', shards,
                    lambda i: dict(VERIF_SEED=run.seed * 5000 + i, VERIF_N=run.pick(12, 400), VERIF_LEN=run.pick(80, 200)),
                    label, timeout=3000)
    run.validate('Trace_System', trace_cfg(invariants, properties), trs, 'tv_' + label, parallel=8, timeout=3000)
    cycles = 0
    for t in trs:
        with open(t) as f:
            for ln in f:
                if '"ev":"Cyc"' in ln:
                    cycles += 1
    return trs, cycles
