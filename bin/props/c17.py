"""C17 - hwmon entries bind to the device the user named, or fail cleanly"""
import vlib
from props import recfam

INV = ['C17_BindsNamedDevice', 'C17_FailsCleanly', 'C17_NoCrash']


def check(run):
    run.model_check('MC_HwmonBind', recfam.simple_cfg(['C17_OrderIndependent', 'C17_BoundDeviceExists']), 'mc_hwmonbind')
    run.build()
    shards = 16
    traces = run.drive('TestDriveC17', shards, lambda i: dict(VERIF_SEED=run.seed * 1000 + i, VERIF_N=run.pick(150, 4000)), 'c17', timeout=3000)
    run.sample_from(traces[0], 2)
    run.validate('Rec_C17', recfam.rec_cfg('Rec_C17', INV), traces, 'rec', parallel=8)
    # growth (drift only): `fan2go detect` (a real process on the same trees) lists under every index the device
    # that the index binds to
    import os
    det = 0
    for t in traces[:run.pick(4, 16)]:
        rc, out = run.tlc('Rec_C17', recfam.rec_cfg('Rec_C17', ['G17_DetectShowsBinding']), 'det_' + os.path.basename(t), workers=1, env=dict(VERIF_TRACE=t))
        if vlib.parse_violation(out) or 'TRACE-DONE' not in out:
            run.cov['drift'].append(dict(trace=os.path.basename(t), note='`fan2go detect` lists devices differently from HwmonBind', line=vlib.last_l(out)))
            vlib.log('[DRIFT] `fan2go detect` lists devices differently from HwmonBind (%s)' % os.path.basename(t))
    n = 0
    bound = errs = 0
    for t in traces:
        with open(t) as f:
            for ln in f:
                if '"ev":"Detect"' in ln:
                    det += 1
                    continue
                n += 1
                if '"err":true' in ln:
                    errs += 1
                else:
                    bound += 1
    if bound < 100 or errs < 100:
        raise vlib.Infra('vacuous: %d bound, %d refused' % (bound, errs))
    run.cov['traces_validated_against_impl'] = n
    return run.finish('model_checking',
                      'HwmonBind.tla (definition) model-checked for order independence over all permutations of 3-chip trees and all '
                      'selectors; fake hwmon trees (1..4 chips, fan channels and temperature numbers on arbitrary subsets, random '
                      'enumeration order) enumerated by the pure-Go gosensors stand-in and taken through the real start-up '
                      '(hwmon.GetChips, internal.InitializeObjects); every file of the tree holds a value identifying its device, so '
                      'the device really read (RPM, PWM, temperature) and written (PWM, enable) on first use is observed; TLC checks '
                      'each case against BindFan / BindSensor; non-trivial = cases',
                      dict(evaluations=n, distinct_nontrivial=n, cases=n, bound=bound, refused=errs, detect_listings=det),
                      ['the gosensors stand-in presents features like libsensors (fanN / tempN with _input sub-features, ascending numbers)',
                       'platform patterns match exactly one chip (or none)'])
