"""Daemon family (C03, C09, C15, C16): Daemon.tla / DaemonProps / Monitor_Daemon shared steps."""
import vlib

BASE = {
    'MaxSignals': '1', 'Outcomes <- OutOk': None, 'Outcomes3 <- OutOk': None, 'OrigModes': '{2}', 'OrigPwms': '{77}',
    'MaxFaults': '0', 'MaxStarts': '1', 'SkipInitWhenMinMax': 'FALSE',
}


def daemon_cfg(fans='F1', kind='KindHw', has_mode='AllTrue', has_rpm='AllTrue', cfg_map='AllFalse', cfg_minmax='AllFalse',
               parallel='TRUE', max_signals=1, outcomes='OutOk', orig_modes='{2}', orig_pwms='{77}', max_faults=0,
               max_starts=1, skip='FALSE', invariants=(), properties=()):
    lines = ['SPECIFICATION DSpec', 'CONSTANTS',
             '  Fans <- ' + fans, '  Kind <- ' + kind, '  HasMode <- ' + has_mode, '  HasRpm <- ' + has_rpm,
             '  CfgMap <- ' + cfg_map, '  CfgMinMax <- ' + cfg_minmax, '  Parallel = ' + parallel,
             '  MaxSignals = %d' % max_signals, '  Outcomes <- ' + outcomes, '  Outcomes3 <- OutOk',
             '  OrigModes = ' + orig_modes, '  OrigPwms = ' + orig_pwms, '  MaxFaults = %d' % max_faults,
             '  MaxStarts = %d' % max_starts, '  SkipInitWhenMinMax = ' + skip, 'CHECK_DEADLOCK FALSE']
    if invariants:
        lines.append('INVARIANTS')
        lines += ['  ' + i for i in invariants]
    if properties:
        lines.append('PROPERTIES')
        lines += ['  ' + p for p in properties]
    return '\n'.join(lines) + '\n'


def monitor_cfg(invariants, properties):
    lines = ['SPECIFICATION MSpec', 'CONSTANTS', '  MaxSignals = 3', '  Outcomes = {"ok"}', '  Outcomes3 = {"ok"}',
             '  OrigModes = {2}', '  OrigPwms = {77}', '  MaxFaults = 0', '  MaxStarts = 1', '  SkipInitWhenMinMax = FALSE',
             'CHECK_DEADLOCK FALSE', 'INVARIANTS', '  Report']
    lines += ['  ' + i for i in invariants]
    if properties:
        lines.append('PROPERTIES')
        lines += ['  ' + p for p in properties]
    lines.append('POSTCONDITION TraceAccepted')
    return '\n'.join(lines) + '\n'


def count(traces, pred):
    n = 0
    for t in traces:
        with open(t) as f:
            for ln in f:
                if pred(ln):
                    n += 1
    return n
