"""Daemon family (C03, C09, C15, C16): Daemon.tla / DaemonProps / Monitor_Daemon shared steps."""
import vlib

BASE = {
    'MaxSignals': '1', 'Outcomes <- OutOk': None, 'Outcomes3 <- OutOk': None, 'OrigModes': '{2}', 'OrigPwms': '{77}',
    'MaxFaults': '0', 'MaxStarts': '1', 'SkipInitWhenMinMax': 'FALSE',
}


def daemon_cfg(fans='F1', kind='KindHw', has_mode='AllTrue', has_rpm='AllTrue', cfg_map='AllFalse', cfg_minmax='AllFalse',
               parallel='TRUE', max_signals=1, outcomes='OutOk', orig_modes='{2}', orig_pwms='{77}', max_faults=0,
               max_starts=1, skip='FALSE', invariants=(), properties=()):
    lines = ['SPECIFICATION DSpec', 'CONSTANTS',
             '  Fans <- ' + fans, '  Kind <- ' + kind, '  HasMode <- ' + has_mode, '  HasRpm <- ' + has_rpm,
             '  CfgMap <- ' + cfg_map, '  CfgMinMax <- ' + cfg_minmax, '  Parallel = ' + parallel,
             '  MaxSignals = %d' % max_signals, '  Outcomes <- ' + outcomes, '  Outcomes3 <- OutOk',
             '  OrigModes = ' + orig_modes, '  OrigPwms = ' + orig_pwms, '  MaxFaults = %d' % max_faults,
             '  MaxStarts = %d' % max_starts, '  SkipInitWhenMinMax = ' + skip, 'CHECK_DEADLOCK FALSE']
    if invariants:
        lines.append('INVARIANTS')
        lines += ['  ' + i for i in invariants]
    if properties:
        lines.append('PROPERTIES')
        lines += ['  ' + p for p in properties]
    return '\n'.join(lines) + '\n'


def monitor_cfg(invariants, properties):
    lines = ['SPECIFICATION MSpec', 'CONSTANTS', '  MaxSignals = 3', '  Outcomes = {"ok"}', '  Outcomes3 = {"ok"}',
             '  OrigModes = {2}', '  OrigPwms = {77}', '  MaxFaults = 0', '  MaxStarts = 1', '  SkipInitWhenMinMax = FALSE',
             'CHECK_DEADLOCK FALSE', 'INVARIANTS', '  Report']
    lines += ['  ' + i for i in invariants]
    if properties:
        lines.append('PROPERTIES')
        lines += ['  ' + p for p in properties]
    lines.append('POSTCONDITION TraceAccepted')
    return '\n'.join(lines) + '\n'


def count(traces, pred):
    n = 0
    for t in traces:
        with open(t) as f:
            for ln in f:
                if pred(ln):
                    n += 1
    return n


CONF_CFG = """SPECIFICATION TSpec
CONSTANTS
  MaxSignals = 3
  Outcomes = {"ok", "fail", "ign"}
  Outcomes3 = {"ok", "fail", "ign"}
  OrigModes = {2}
  OrigPwms = {77}
  MaxFaults = 1000000
  MaxStarts = 1000000
  SkipInitWhenMinMax = FALSE
CHECK_DEADLOCK FALSE
CONSTRAINT Mark
POSTCONDITION Accepted
"""


def conformance(run, traces, label='conf', limit=None):
    """(C1) are the recorded executions behaviours of Daemon.tla? Trace_Daemon searches for a placement of the
    silent steps; a trace that is not accepted is DRIFT (the monitors remain the arbiter), never a violation."""
    import concurrent.futures as cf
    import os
    import re
    import time
    t0 = time.time()
    files = traces if limit is None else traces[:limit]
    # the search over silent-step placements is for a bounded number of process lives per file (the monitors, which
    # are linear, judge everything): in the thorough tier each file is cut after its first 40 traces
    if not run.quick():
        cut = []
        for tr in files:
            outp = tr + '.conf'
            n = 0
            with open(tr) as f, open(outp, 'w') as g:
                for ln in f:
                    if '"ev":"Begin"' in ln and '"newTrace":true' in ln:
                        n += 1
                        if n > 40:
                            break
                    g.write(ln)
            cut.append(outp)
        files = cut

    def one(args):
        i, tr = args
        rc, out = run.tlc('Trace_Daemon', CONF_CFG, '%s_%d' % (label, i), workers=1, env=dict(VERIF_TRACE=tr), timeout=1800, heap='4g')
        return tr, out
    with cf.ThreadPoolExecutor(max_workers=8) as ex:
        res = list(ex.map(one, enumerate(files)))
    ok = 0
    for tr, out in res:
        m = re.search(r'"CONFORMANCE", (\d+), "consumed", (\d+)', out)
        if not m:
            # the search did not finish (time / memory): conformance of this file stays undecided - it can only ever
            # produce DRIFT, so this is noted and is not an error of the check
            tail = '\n'.join(out.splitlines()[-8:])
            vlib.log(tail)
            run.cov['drift'].append(dict(trace=os.path.basename(tr), note='conformance search did not complete (undecided)'))
            vlib.log('[conf] %s: search did not complete, conformance undecided' % os.path.basename(tr))
            continue
        n, consumed = int(m.group(1)), int(m.group(2))
        if consumed == n:
            ok += 1
        else:
            line = vlib.read_line(tr, consumed + 1)
            run.cov['drift'].append(dict(trace=os.path.basename(tr), consumed=consumed, of=n, rejected_event=line[:400]))
            vlib.log('[DRIFT] %s: the recorded execution is not a behaviour of Daemon.tla from line %d on: %s' % (
                os.path.basename(tr), consumed + 1, line[:300]))
    run.cov['validations'].append(dict(module='Trace_Daemon', label=label, files=len(files), accepted=ok,
                                       wall_s=round(time.time() - t0, 1)))
    vlib.log('[conf] Trace_Daemon: %d of %d trace files are behaviours of Daemon.tla (%.1fs)' % (ok, len(files), time.time() - t0))
    return ok
