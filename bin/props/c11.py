"""C11 - a configuration that validates can be run"""
import vlib
from props import recfam

INV = ['C11_AcceptedIsWellFormed', 'C11_AcceptedRuns', 'C11_DocumentedIsAccepted']
CONF = ['C11_ConformsValidator']


def check(run):
    shapes = ['small', 'graph'] if run.quick() else ['small', 'graph', 'graph4']
    for sh in shapes:
        c = vlib.cfg(constants=dict(Shape='"%s"' % sh), invariants=['C11_AcceptedIsWellFormed', 'C11_DocumentedIsAccepted'])
        run.model_check('MC_Config', c, 'mc_config_' + sh, timeout=run.pick(900, 7200), heap='16g')
    for nv in ['NV_NothingAccepted', 'NV_NoCycleRejected']:
        c = vlib.cfg(constants=dict(Shape='"graph"'), invariants=[nv])
        r2, _ = run.model_check('MC_Config', c, 'nv_' + nv, expect_violation=[nv])
        if r2['violation'] != nv:
            raise vlib.Infra('vacuous model: ' + nv)
    run.build()
    shards = 16
    traces = run.drive('TestDriveC11', shards, lambda i: dict(VERIF_SEED=run.seed * 1000 + i, VERIF_N=run.pick(250, 6000)), 'c11', timeout=3000)
    run.sample_from(traces[0], 2)
    run.validate('Rec_C11', recfam.rec_cfg('Rec_C11', INV), traces, 'rec', parallel=8, timeout=3000)
    # conformance of the real validator with the model of the validator: drift, not a verdict
    import os
    import json
    for t in traces[:4]:
        rc, out = run.tlc('Rec_C11', recfam.rec_cfg('Rec_C11', CONF), 'conf_' + os.path.basename(t), workers=1, env=dict(VERIF_TRACE=t))
        if vlib.parse_violation(out):
            run.cov['drift'].append(dict(trace=os.path.basename(t), note='the real validator accepts/rejects differently from Config!Validate',
                                         line=vlib.last_l(out)))
            vlib.log('[DRIFT] validator differs from the model Config!Validate in %s' % os.path.basename(t))
    # process level: `fan2go config validate` and the real daemon, as child processes, on generated configurations
    ptr = run.drive('TestDriveC11Proc', run.pick(1, 4), lambda i: dict(VERIF_SEED=run.seed * 100 + i, VERIF_N=run.pick(30, 150), VERIF_PAR=run.pick(8, 4)),
                    'c11proc', timeout=3000)
    run.validate('Rec_C11', recfam.rec_cfg('Rec_C11', ['C11_ValidatedStarts']), ptr, 'rec_proc', parallel=4, timeout=600)
    pn = pacc = 0
    for t in ptr:
        with open(t) as f:
            for ln in f:
                e = json.loads(ln)
                if e['ev'] == 'Proc':
                    pn += 1
                    pacc += 1 if e['cli'] == 0 else 0
        rc, out = run.tlc('Rec_C11', recfam.rec_cfg('Rec_C11', ['G11_CliConformsValidator', 'G11_RejectedRefused']), 'conf_' + os.path.basename(t),
                          workers=1, env=dict(VERIF_TRACE=t))
        if vlib.parse_violation(out):
            run.cov['drift'].append(dict(trace=os.path.basename(t), note='process level: %s' % vlib.parse_violation(out), line=vlib.last_l(out)))
            vlib.log('[DRIFT] process level: %s in %s' % (vlib.parse_violation(out), os.path.basename(t)))
    if not run.violations and (pacc < 2 or pn - pacc < 2):
        raise vlib.Infra('vacuous: %d configurations at process level, %d accepted by `config validate`' % (pn, pacc))
    run.cov['process_level'] = dict(configurations=pn, accepted_by_config_validate=pacc)
    # growth beyond the listed property (never a verdict): start-up code of internal/backend.go against Backend.tla -
    # control-algorithm selection for every spelling (incl. the `controlAlgorithm: {}` nil loop) and sensor seeding
    btr = run.drive('TestDriveBackend', 1, lambda i: dict(VERIF_SEED=run.seed), 'backend')
    rc, out = run.tlc('Rec_Backend', recfam.rec_cfg('Rec_Backend', ['G11_AlgorithmSelection', 'G11_RateLimit', 'G11_SensorSeed']), 'rec_backend',
                      workers=1, env=dict(VERIF_TRACE=btr[0]))
    run.cov['growth_backend'] = dict(records=vlib.count_lines(btr[0]), accepted=vlib.parse_violation(out) is None and 'TRACE-DONE' in out)
    if not run.cov['growth_backend']['accepted']:
        run.cov['drift'].append(dict(trace='backend', note='start-up behaviour differs from Backend.tla: %s' % vlib.parse_violation(out)))
        vlib.log('[DRIFT] start-up (algorithm selection / sensor seeding) differs from Backend.tla: %s' % vlib.parse_violation(out))
    n = acc = cyc = doc = 0
    for t in traces:
        with open(t) as f:
            for ln in f:
                e = json.loads(ln)
                if e['ev'] == 'Cfg':
                    n += 1
                    doc += 1 if e['documented'] else 0
                elif e.get('accepted'):
                    acc += 1
    if acc < 100 or n - acc < 100:
        raise vlib.Infra('vacuous: %d configurations, %d accepted' % (n, acc))
    run.cov['traces_validated_against_impl'] = n
    return run.finish('model_checking',
                      'Config.tla: the validator as implemented vs. well-formed / evaluable / documented, model-checked over all '
                      'two-curve configurations with every variant (kinds, references, backends, step counts, ids) and all function '
                      'graphs over 3 (thorough: 4) nodes (every cycle length, dangling references); generated configurations (1..8 '
                      'curves, DAGs, deliberate cycles of every length 1..8, dangling / missing / duplicate ids, 0/1/2 backends, all six '
                      'function types with 0/1/more members, empty and singleton step lists, every spelling of controlAlgorithm incl. the '
                      'deprecated controlLoop, hwmon index / rpmChannel / pwmChannel forms) rendered to YAML and taken through the real '
                      'loader + validator; accepted ones are instantiated (InitializeObjects on a fake hwmon tree) and every curve is '
                      'evaluated for 6 sensor vectors in a child process (crash / hang = observation); one third is assembled from '
                      'documented forms only; a further sample goes through the real command `fan2go config validate` and the real daemon '
                      '(child processes; validated => every fan controller starts and the process lives on); non-trivial = configurations',
                      dict(evaluations=n, distinct_nontrivial=n, configurations=n, accepted=acc, documented_only=doc),
                      ['the abstract record logged with each YAML document is what TLC judges (ids, backend counts, references, members, step counts)',
                       'control-loop construction is outside the property (only sensors, curves and fans are instantiated)'])
