"""C01 - every PWM value written while regulating stays inside the fan's limits"""
import vlib
from props import ctlfam

INV = ['C01_ReqWithinLimits', 'C01_WriteIsMapOfNearest', 'C01_WriteIn0to255', 'C01_SkipOnlyWhenEqual']
PROP = []


def check(run):
    ctlfam.model(run, INV, PROP)
    traces = ctlfam.drive_and_validate(run, 'C01', INV, PROP, n_hist=run.pick(480, 8000), hist_len=run.pick(40, 60),
                                       replay_num=run.pick(150, 1500), trace_only=['C01_ConfiguredLimits'])
    cycles = ctlfam.count_events(traces, lambda ln: '"ev":"Cycle"' in ln)
    oob = ctlfam.count_events(traces, lambda ln: '"ev":"Cycle"' in ln and ('"cv":-' in ln or '"cv":256' in ln or '"cv":1000' in ln or '"cv":1073741824' in ln))
    return run.finish('model_checking',
                      'MC_Controller explored to closure (all histories of loop output x RPM class x third-party write over '
                      'the corner configurations); real histories = TLC-simulated schedules replayed + seeded random '
                      'histories (hwmon/file/cmd fans, direct/rate/PID loops incl. random finite gains, dt incl. 0) on the '
                      'real controller, each validated by TLC against Controller.tla with the C01 formulas as invariants; '
                      'non-trivial = control cycles executed',
                      dict(evaluations=cycles, distinct_nontrivial=oob, cycles=cycles, cycles_with_out_of_range_curve_value=oob),
                      ['the interposed register file shows exactly the value written (quantising fans: map outputs are fixed points)',
                       'TLC, Go 1.26.8 testing/synctest fake clock, harness projection of controller state'])
