"""C06 - curves evaluate to their documented function, always within 0..255"""
import vlib
from props import recfam, sysfam

INV = ['C06_Linear', 'C06_Steps', 'C06_LinearAnyFloat', 'C06_StepsAnyFloat', 'C06_Graph', 'C06_Pid', 'C06_PidRange', 'C06_PidSaturates']


def check(run):
    run.model_check('MC_Curves', recfam.simple_cfg(['C06_Range', 'C06_Saturation']), 'mc_curves')
    run.build()
    shards = 16
    traces = run.drive('TestDriveCurves', shards, lambda i: dict(VERIF_SEED=run.seed, VERIF_SHARD=i, VERIF_N=run.pick(25, 1500)),
                       'curves', timeout=3000)
    run.sample_from(traces[0], 1)
    run.validate('Rec_Curves', recfam.rec_cfg('Rec_Curves', INV), traces, 'rec', parallel=8, timeout=3000)
    # the same definition on the composed data path (System.tla): what a control cycle of a fan evaluates is the
    # documented function of the sensor state of that moment, compositionally, for objects built by the start-up code
    _, cycles = sysfam.traces(run, ['C06_SystemEval'], [])
    import json
    evals = cycles
    kinds = {}
    for t in traces:
        with open(t) as f:
            for ln in f:
                e = json.loads(ln)
                kinds[e['ev']] = kinds.get(e['ev'], 0) + 1
                if e['ev'] in ('Lin', 'Steps', 'Pid'):
                    evals += len(e['vals'])
                elif e['ev'] == 'Graph':
                    evals += sum(len(x['vals']) for x in e['evals'])
                else:
                    evals += 1
    n = recfam.count_lines(traces)
    run.cov['traces_validated_against_impl'] = n
    return run.finish('model_checking',
                      'Curves.tla (definition with rounding envelopes) model-checked for range and saturation over a small universe of '
                      'linear / step / function configurations; records of real evaluations through the real constructors and registries: '
                      'linear min/max and step curves swept over grids with +-3 m-degree around every threshold, non-integer and extreme '
                      'sensor values (1e300, MaxFloat64, -0.0), random curve graphs (six function types, 1..8 members, depth <= 4) with '
                      'every curve checked compositionally against its members\' observed values, PID curves on an exact rational grid under '
                      'the fake clock and with arbitrary finite gains (range only); plus control cycles of the composed pipeline (System.tla, objects '
                      'built by the start-up code, polls and cycles interleaved) with every curve the fan uses checked against its definition on '
                      'the sensor averages of that moment; non-trivial = single curve evaluations checked',
                      dict(evaluations=evals, distinct_nontrivial=evals, records=n, record_kinds=kinds),
                      ['float envelopes: {e, e-1} at exact multiples for truncations, both neighbours within 2^-12 of a rounding tie (float32)',
                       'PID exactness: gains p/100, i/1000, d/1000, integer set point, measurements in tenths of a degree, 1 s ticks'])
