"""C15 - stored characterisation is reused; fans are analysed once"""
import vlib
from props import dmnfam

INV = ['C15_Reuse', 'C15_ConfigMapNoSweep', 'C15_AtMostOnce']
PROP = ['C15_StoredUntilDiscarded']
MONPROP = PROP + ['C15_ResetDiscards', 'C15_InitStores', 'C15_StartStores', 'C15_DiscardedStays']


def check(run):
    q = run.quick()
    # (A) all sequences of start / stop / reset / init
    for name, kw in [('c15_mixed', dict(fans='F2', kind='KindMixed', has_mode='ModeMixed', has_rpm='RpmMixed')),
                     ('c15_cfgmap', dict(fans='F2', kind='KindMixed', has_mode='ModeMixed', has_rpm='RpmMixed', cfg_map='CfgMapMixed')),
                     ('c15_cfgmap_hw', dict(fans='F1', kind='KindHw', cfg_map='CfgMapF1'))]:
        c = dmnfam.daemon_cfg(max_starts=run.pick(3, 5), invariants=INV, properties=PROP, **kw)
        run.model_check('MC_Daemon', c, name, timeout=run.pick(600, 3600))
    for nv in ['NV_NoSecondStart', 'NV_NoReuse']:
        c = dmnfam.daemon_cfg(fans='F1', max_starts=2, invariants=[nv])
        r2, _ = run.model_check('MC_Daemon', c, 'nv_' + nv, expect_violation=[nv])
        if r2['violation'] != nv:
            raise vlib.Infra('vacuous model: ' + nv)
    # the README's promise (minPwm+maxPwm configured => no RPM-curve measurement) against the model of the code
    c = dmnfam.daemon_cfg(fans='F1', cfg_minmax='AllTrue', max_starts=2, invariants=['C15_ReadmeSkip'])
    r3, _ = run.model_check('MC_Daemon', c, 'c15_readme', expect_violation=['C15_ReadmeSkip'])
    run.cov['model_of_code_violates_C15_ReadmeSkip'] = r3['violation'] == 'C15_ReadmeSkip'
    # (B)+(C)
    run.build()
    shards = 16
    traces = run.drive('TestDriveC15', shards, lambda i: dict(VERIF_SEED=run.seed * 1000 + i, VERIF_N=run.pick(3, 60)), 'c15', timeout=3000)
    run.sample_from(traces[0], 2)
    dmnfam.conformance(run, traces)
    run.validate('Monitor_Daemon', dmnfam.monitor_cfg(INV, MONPROP), traces, 'mon')
    # known finding D10 is checked in a pass of its own so that it cannot mask anything else
    run.validate('Monitor_Daemon', dmnfam.monitor_cfg(['C15_ReadmeSkip'], []), traces, 'monreadme')
    starts = dmnfam.count(traces, lambda ln: '"ev":"Begin"' in ln)
    restarts = dmnfam.count(traces, lambda ln: '"ev":"Begin"' in ln and '"newTrace":false' in ln)
    cli = dmnfam.count(traces, lambda ln: '"ev":"CliReset"' in ln or '"ev":"CliInit"' in ln)
    if restarts < 10:
        raise vlib.Infra('vacuous: only %d restarts on an existing database' % restarts)
    # growth beyond the listed property (never a verdict): the direct fan commands of the command line against Cli.tla
    from props import recfam
    import os
    run.model_check('MC_Cli', vlib.cfg(invariants=['G_ReadOnly', 'G_WriteLocal'], properties=['G_KindNeverChanges']), 'mc_cli', timeout=300)
    ctr = run.drive('TestDriveCli', 2, lambda i: dict(VERIF_SEED=run.seed * 13 + i, VERIF_N=run.pick(30, 300)), 'cli', timeout=1800)
    for t in ctr:
        rc, out = run.tlc('Rec_Cli', recfam.rec_cfg('Rec_Cli', ['G_CliConforms']), 'rec_' + os.path.basename(t), workers=1, env=dict(VERIF_TRACE=t))
        if vlib.parse_violation(out) or 'TRACE-DONE' not in out:
            run.cov['drift'].append(dict(trace=os.path.basename(t), note='a fan command of the CLI differs from Cli.tla'))
            vlib.log('[DRIFT] a fan command of the CLI differs from Cli.tla (%s)' % os.path.basename(t))
    run.cov['cli_commands'] = recfam.count_lines(ctr)
    return run.finish('model_checking',
                      'Daemon.tla: all sequences of start / stop / fan reset / fan init (depth bounded by the number of starts) for '
                      'hwmon+file fans with and without a configured pwmMap; real controller.Run (bubble) started repeatedly on one bbolt '
                      'database (hwmon/file/cmd fans, configured pwmMap, configured minPwm+maxPwm), reset/init emulated by the commands\' '
                      'bodies in between; sweeps and RPM-curve measurements between process start and regulation counted from hook '
                      'events by TLC; non-trivial = restarts on an existing database',
                      dict(evaluations=starts, distinct_nontrivial=restarts, starts=starts, restarts=restarts, cli_calls=cli),
                      ['`fan reset` is the real CLI command run in a child process (cmd.Execute); `fan init` is emulated by its body (cmd/fan/init.go: delete both '
                       'entries, then RunInitializationSequence) because the real analysis takes real time'])
