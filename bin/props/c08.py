"""C08 - sensor smoothing stays within observed readings, converges, ignores failed reads"""
import vlib
from props import recfam

BUGS = dict(BugD6='FALSE', BugD7='FALSE')
INV = ['C08_HullObs', 'C08_NeverPoisonedObs']
PROP = ['C08_ContractionObs', 'C08_FaultIsNoOpObs']


def check(run):
    c = vlib.cfg(constants=dict(BUGS, Depth='6', Wide=run.pick('FALSE', 'TRUE')), invariants=['C08_Hull', 'C08_NeverPoisoned'],
                 properties=['C08_Contraction', 'C08_FaultIsNoOp'])
    run.model_check('MC_Smoothing', c, 'mc_smoothing', timeout=run.pick(600, 3600))
    run.build()
    shards = 16
    traces = run.drive('TestDriveC08', shards,
                       lambda i: dict(VERIF_SEED=run.seed * 1000 + i, VERIF_N=run.pick(18, 200), VERIF_LEN=run.pick(30, 60),
                                      VERIF_TIMEOUTS=run.pick(1, 3)), 'c08', timeout=3000)
    run.sample_from(traces[0], 4)
    c2 = vlib.cfg(spec='TSpec', constants=BUGS, invariants=['Report'] + INV, properties=PROP, post='TraceAccepted')
    run.validate('Trace_Smoothing', c2, traces, 'tv')
    polls = 0
    faults = {}
    import json
    for t in traces:
        with open(t) as f:
            for ln in f:
                if '"ev":"Poll"' in ln:
                    polls += 1
                    ft = json.loads(ln)['fault']
                    if ft:
                        faults[ft] = faults.get(ft, 0) + 1
    if len(faults) < 9:
        raise vlib.Infra('vacuous: fault kinds observed: %s' % sorted(faults))
    return run.finish('model_checking',
                      'Smoothing.tla (exact rational average) explored for windows 1..4, readings from a 4-value set and every placement of '
                      'failed / non-finite reads to depth %d (hull, contraction, fault-is-no-op, never poisoned); real hwmon / file / cmd '
                      'sensors polled through the real monitor poll (internal.updateSensor) with real faults (missing / empty / non-numeric '
                      'file, directory instead of file, non-zero exit, garbage, nan, inf, -inf, empty output, command sleeping past its '
                      'deadline), windows 1..50; TLC validates every poll against the exact smoothing step and the C08 formulas; '
                      'non-trivial = polls with a fault' % 6,
                      dict(evaluations=polls, distinct_nontrivial=sum(faults.values()), polls=polls, faults_by_kind=faults),
                      ['observation: floor(avg*1000) and floor/ceil of the reading*1000; formulas carry +-2..3 units of slack for this projection',
                       'readings are finite and below 2*10^6 in magnitude (32-bit TLC integers)'])
