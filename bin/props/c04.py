"""C04 - constant curve value: request settles at one target, same for every algorithm"""
import concurrent.futures as cf

import vlib
from props import ctlfam

INV = ['C04_Settles', 'C04_SteadyValue', 'C04_NoWindup', 'C01_ReqWithinLimits']
PROP = ['C04_RateStep', 'C04_RateMonotone', 'C04_NoRaiseWhileTurning']


def mc(run, name, algs, cset, starts, lims, workers, timeout):
    consts = dict(ctlfam.BUGS)
    consts['Algs <- ' + algs] = None
    body = vlib.cfg(constants=dict(ctlfam.BUGS, ProbeX="100000"), invariants=INV + ['C04_SteadyEnds'], properties=PROP)
    body = body.replace('CONSTANTS\n', 'CONSTANTS\n  Algs <- %s\n  CSet %s\n  StartSet %s\n  Lims <- %s\n' % (algs, cset, starts, lims))
    return run.model_check('MC_C04', body, name, workers=workers, timeout=timeout, heap='9g')


def check(run):
    q = run.quick()
    jobs = []
    if q:
        jobs.append(('c04_stateless', 'AlgsStatelessQuick', '<- CQuick', '<- CQuick', 'LimsQuick', 8))
        jobs.append(('c04_pid200', 'AlgsPid200', '= {%d}' % [77, 128, 1, 254, 200, 33][run.seed % 6], '= {0}', 'LimsOne', 8))
    else:
        jobs.append(('c04_stateless', 'AlgsStatelessThorough', '<- CThorough', '<- CQuick', 'LimsThorough', 4))   # ~17 M states
        for dt, cs in [(50, '{77}'), (100, '{128}'), (200, '{0, 77, 255}'), (500, '{33, 200}'),
                       (1000, '{77, 254}'), (2000, '{1, 128}')]:
            jobs.append(('c04_pid%d' % dt, 'AlgsPid%d' % dt, '= ' + cs, '= {0, 255}', 'LimsOne', 4))
    with cf.ThreadPoolExecutor(max_workers=2 if q else 3) as ex:      # (memory: at most 3 x 9 GB heaps)
        futs = [ex.submit(mc, run, j[0], j[1], j[2], j[3], j[4], j[5], run.pick(900, 3 * 3600)) for j in jobs]
        for f in futs:
            f.result()
    # non-vacuity: constant stretches longer than K are part of the explored graph
    body = vlib.cfg(constants=dict(ctlfam.BUGS, ProbeX="100000"), invariants=["NV_NeverLong"])
    body = body.replace('CONSTANTS\n', 'CONSTANTS\n  Algs <- AlgsStatelessQuick\n  CSet = {77}\n  StartSet = {0}\n  Lims <- LimsOne\n')
    r2, _ = run.model_check('MC_C04', body, 'nv_long', expect_violation=['NV_NeverLong'], timeout=600)
    if r2['violation'] != 'NV_NeverLong':
        raise vlib.Infra('vacuous C04 model')
    run.build()
    shards = 16
    traces = run.drive('TestDriveC04', shards,
                       lambda i: dict(VERIF_SEED=run.seed * 1000 + i, VERIF_N=run.pick(4, 40), VERIF_LEN=run.pick(1500, 8000)),
                       'c04', timeout=3000)
    run.sample_from(traces[0], 3)
    run.validate('Trace_Controller', ctlfam.trace_cfg(INV, PROP), traces, 'tv', timeout=3000)
    # several fans in one daemon, controllers as the start-up code builds them (default / named algorithms): the fan with the
    # constant curve settles whatever the others do
    from props import recfam
    mt = run.drive('TestDriveC04Multi', 8, lambda i: dict(VERIF_SEED=run.seed * 77 + i, VERIF_N=run.pick(4, 40)), 'c04multi', timeout=3000)
    run.validate('Rec_Backend', recfam.rec_cfg('Rec_Backend', ['C04_MultiFanSettles']), mt, 'multi', parallel=8)
    run.cov['multi_fan_runs'] = recfam.count_lines(mt)
    cycles = ctlfam.count_events(traces, lambda ln: '"ev":"Cycle"' in ln)
    runs = ctlfam.count_events(traces, lambda ln: '"ev":"Init"' in ln)
    return run.finish('model_checking',
                      'MC_C04: the cycle closed through the exact loop models, arbitrary curve trajectories over {0,c,255} of any '
                      'length explored to closure with a capped constant-stretch counter (settle bound K(alg), steady value, step '
                      'bound, monotone approach, bounded PID integral); real controllers (direct / rate limited / default PID at '
                      '50 ms..2 s ticks) run on identical fans over the same prior history + constant stretch under the fake clock, '
                      'each cycle checked by TLC for conformance with the exact loop model and for the C04 formulas; '
                      'non-trivial = real controller runs (one per algorithm and history)',
                      dict(evaluations=cycles, distinct_nontrivial=runs, cycles=cycles, controller_runs=runs),
                      ['K(direct)=1, K(rate m)=ceil(255/m)+1, K(pid)=2500 cycles for ticks <=50 ms, 1200 otherwise (bounds verified on the exhaustive model)',
                       'PID exactness: default gains, tick periods dividing 250000 ms'])
