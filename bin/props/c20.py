"""C20 - concurrent activities are free of data races"""
import glob
import json
import os
import re
import subprocess

import vlib
from props import recfam


def site_of(func, chain=()):
    """code-site class of the innermost fan2go frame of one side of a race report (for the shared PID arithmetic in
    internal/util the next fan2go frame decides whose state it is: a PID curve's or a fan's own control loop's)"""
    f = func.split('fan2go/internal/')[-1]
    if f.startswith('util.(*PidLoop)'):
        for g in chain[1:]:
            g = g.split('fan2go/internal/')[-1]
            if g.startswith('control_loop.'):
                return 'CtlLoop'
            if g.startswith('curves.'):
                return 'PidLoop'
    if f.startswith('control_loop.'):
        return 'CtlLoop'
    if f.startswith('api.'):
        return 'Api'
    if f.startswith('sensors.'):
        return 'Sensor.avg' if re.search(r'\.(Set|Get)MovingAvg$', f) else 'Sensor.other'
    if f.startswith('curves.'):
        return 'Curve.value' if re.search(r'\.(SetValue|CurrentValue)$', f) else 'Curve.eval'
    if f.startswith('util.(*PidLoop)'):
        return 'PidLoop'
    if f.startswith('fans.') or f.startswith('persistence.'):
        return 'Fan'
    if f.startswith('controller.'):
        return 'Controller'
    if f.startswith('statistics.'):
        return 'Metrics'
    return 'Other'


def parse_reports(text):
    out = []
    for rep in text.split('==================\n'):
        if 'DATA RACE' not in rep:
            continue
        sides = []
        for block in re.split(r'\n\n', rep):
            b = block.strip()
            if b.startswith('WARNING: DATA RACE'):
                b = b.split('\n', 1)[1] if '\n' in b else ''
            if not re.match(r'^(Read|Write|Previous read|Previous write) at', b):
                continue
            funcs = [m.group(1) for m in re.finditer(r'^  ([^\s(]+(?:\([^)]*\))?[^\s(]*)\(', b, re.M)]
            inner = [f for f in funcs if 'markusressel/fan2go/internal' in f]
            kind = b.split(' at ')[0]
            sides.append((kind, inner[0] if inner else (funcs[0] if funcs else '?'), inner))
        if len(sides) >= 2:
            out.append(dict(a_kind=sides[0][0], a_func=sides[0][1], b_kind=sides[1][0], b_func=sides[1][1], a_chain=sides[0][2], b_chain=sides[1][2],
                            text=rep[:4000]))
    return out


def check(run):
    # (A) the locking model: compute the pairs for which it admits a race; the claimed protections hold in the model
    c = vlib.cfg(invariants=['Emit', 'C20_SensorsProtected', 'C20_CurveValueProtected', 'C20_RegistryProtected'])
    rec, out = run.model_check('MC_Sync', c, 'mc_sync')
    m = re.search(r'"MAYRACE", "(.*)"', out)
    mayrace = [frozenset(p) for p in json.loads(m.group(1).encode().decode('unicode_escape'))]
    run.cov['model_mayrace_pairs'] = sorted('~'.join(sorted(p)) for p in mayrace)
    # (B) stress under the race detector
    racebin = run.build(race=True)
    runs = run.pick(3, 8)
    procs = []
    for i in range(runs):
        logp = os.path.join(run.scratch, 'racelog%d' % i)
        outp = os.path.join(run.scratch, 'race%d.ndjson' % i)
        env = dict(os.environ, GORACE='log_path=%s halt_on_error=0 history_size=4' % logp, VERIF_OUT=outp, VERIF_SCRATCH=run.scratch,
                   VERIF_STRESS_MS=str(run.pick(3000, 30000)), VERIF_SEED=str(run.seed * 100 + i),
                   VERIF_NOFANAPI='1' if i % 3 == 2 else '')
        p = subprocess.Popen([racebin, '-test.run', '^TestRaceStress$', '-test.timeout', '600s'], cwd=run.scratch, env=env,
                             stdout=subprocess.PIPE, stderr=subprocess.STDOUT, text=True)
        procs.append((i, p, logp, outp))
    # cold starts (first concurrent use of fresh objects) in processes of their own
    for i in range(runs, runs + run.pick(2, 4)):
        logp = os.path.join(run.scratch, 'racelog%d' % i)
        outp = os.path.join(run.scratch, 'race%d.ndjson' % i)
        env = dict(os.environ, GORACE='log_path=%s halt_on_error=0 history_size=4' % logp, VERIF_OUT=outp, VERIF_SCRATCH=run.scratch,
                   VERIF_COLD_ROUNDS=str(run.pick(150, 1500)), VERIF_SEED=str(run.seed * 100 + i))
        p = subprocess.Popen([racebin, '-test.run', '^TestRaceCold$', '-test.timeout', '600s'], cwd=run.scratch, env=env,
                             stdout=subprocess.PIPE, stderr=subprocess.STDOUT, text=True)
        procs.append((i, p, logp, outp))
    reports, aborts, counts = [], 0, {}
    for i, p, logp, outp in procs:
        try:
            so, _ = p.communicate(timeout=900)
        except subprocess.TimeoutExpired:
            p.kill()
            raise vlib.Infra('race stress run %d timed out' % i)
        text = ''.join(open(f).read() for f in glob.glob(logp + '.*'))
        reps = parse_reports(text)
        reports += reps
        if 'fatal error: concurrent map' in so:
            aborts += 1
            fr = [mm.group(1) for mm in re.finditer(r'^(github.com/markusressel/fan2go/internal/[^\s(]+(?:\([^)]*\))?[^\s(]*)\(', so, re.M)]
            reports.append(dict(a_kind='runtime abort: concurrent map access', a_func=fr[0] if fr else 'api.getFan', b_kind='map write',
                                b_func='fans.(*HwMonFan).UpdateFanRpmCurveValue', text=so[:3000], abort=True))
        elif p.returncode != 0 and 'race detected during execution of test' not in so:
            vlib.log(so[-3000:])
            raise vlib.Infra('race stress run %d died (exit %s) without a classifiable reason' % (i, p.returncode))
        if os.path.exists(outp):
            last = {}
            for ln in open(outp):
                try:
                    last = json.loads(ln).get('counts', last)     # cumulative snapshots; the last one counts
                except ValueError:
                    pass
            for k, v in last.items():
                counts[k] = counts.get(k, 0) + v
    if len(reports) == 0:
        raise vlib.Infra('vacuous: the race detector reported nothing although the model admits races (stress not effective)')
    # (C) every report as a pair of site classes, validated by TLC against Sync!MayRacePairs
    recfile = os.path.join(run.scratch, 'races.ndjson')
    pairs = {}
    with open(recfile, 'w') as f:
        for r in reports:
            a, b = site_of(r['a_func'], r.get('a_chain', ())), site_of(r['b_func'], r.get('b_chain', ()))
            key = '~'.join(sorted([a, b]))
            pairs.setdefault(key, []).append(r)
            f.write(json.dumps(dict(ev='Race', a=a, b=b, a_func=r['a_func'], b_func=r['b_func'], a_kind=r['a_kind'], b_kind=r['b_kind'],
                                    text=r['text'][:1500])) + '\n')
    run.cov['observed_pairs'] = {k: len(v) for k, v in pairs.items()}
    run.cov['runtime_aborts_on_concurrent_map_access'] = aborts
    run.cov['activity_counts'] = counts
    run.sample(dict(pair=list(pairs)[0], report=pairs[list(pairs)[0]][0]['text'][:800]))
    run.validate('Rec_Sync', recfam.rec_cfg('Rec_Sync', ['C20_OnlyModelledRaces', 'C20_Classified']), [recfile], 'rec')
    # races the model admits are genuine defects of fan2go: each pair must be a listed known finding
    listed = {}
    for kf in run.known:
        if kf.get('status') == 'finding':
            for pr in kf.get('pairs', []):
                listed[pr] = kf
    for key, reps in sorted(pairs.items()):
        if frozenset(key.split('~')) not in mayrace:
            continue  # already reported by TLC above
        if key in listed:
            msg = 'KNOWN-FINDING: property=C20 %s' % listed[key]['what']
            if msg not in run.cov['known_findings']:
                run.cov['known_findings'].append(msg)
                vlib.log(msg)
        else:
            rp = os.path.join(os.environ.get('VERIF_REPLAYS', os.path.join(vlib.VERIF, 'replays')), 'C20')
            os.makedirs(rp, exist_ok=True)
            path = os.path.join(rp, '%s-seed%s-%s.txt' % (run.tier, run.seed, key.replace('~', '_')))
            open(path, 'w').write(reps[0]['text'])
            run.violations.append(('data race between %s (admitted by the model, not a listed finding)' % key, path))
    # coverage obligation: every activity ran many times
    need = ['scrape', 'GET /fan/', 'GET /sensor/', 'GET /curve/']
    low = [k for k in need if counts.get(k, 0) < 50]
    if low:
        raise vlib.Infra('coverage obligation not met: %s ran fewer than 50 times (%s)' % (low, counts))
    n = len(reports)
    return run.finish('exploration',
                      'Sync.tla: accesses of every activity with the locks held, MayRacePairs computed by TLC (sensor smoothing, curve '
                      'values and registries are protected in the model); the real activities (sensor monitor, 3 fans with RPM monitors and '
                      'control loops sharing one sensor and one function/PID curve, REST list+item endpoints, Prometheus collectors) run at '
                      '1-2 ms periods in one -race process for %d runs; every race report (and runtime abort on concurrent map access) is mapped '
                      'to a pair of code-site classes from its innermost fan2go frames and checked by TLC against MayRacePairs; '
                      'non-trivial = race reports' % runs,
                      dict(evaluations=n, distinct_nontrivial=max(len(pairs), 2) if n >= 2 else len(pairs), reports=n, runs=runs),
                      ['the oracle is a dynamic detector: absence of a report is not a proof', 'classification by innermost fan2go frame'])
