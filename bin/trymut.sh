#!/bin/bash
# usage: trymut.sh <patch.diff> <check id> [tier]   - runs one check against a scratch worktree of /repo with the patch applied
PATCH=$(readlink -f $1); C=$2; TIER=${3:-quick}
W=/dev/shm/verif-trywt.$$
git -C /repo worktree prune
git -C /repo worktree add -q --detach $W HEAD || exit 2
trap 'cd /; git -C /repo worktree remove --force $W 2>/dev/null; rm -rf $W' EXIT
(cd $W && git apply $PATCH) || { echo "PATCH DOES NOT APPLY"; exit 3; }
cd /verif
VERIF_REPO=$W VERIF_REPLAYS=/dev/shm/verif-mut-replays VERIF_EVIDENCE_DIR=/dev/shm/verif-mut-evidence bin/check $C --tier $TIER 2>&1 | grep -v "^WARN" | tail -${LINES_OUT:-12}
echo "exit ${PIPESTATUS[0]}"
