//go:build verif

package verifharness

import (
	"bufio"
	"encoding/json"
	"fmt"
	"math"
	"os"
	"path/filepath"
	"sort"
	"strconv"
	"strings"
	"sync"

	"github.com/markusressel/fan2go/internal/controller"
	"github.com/markusressel/fan2go/internal/util"
)

// ---------------------------------------------------------------------------------------------
// Recorder: ndjson trace output. One global sequence number, taken under the recorder's mutex,
// orders the events of all goroutines (linearization order of the hooks).
// ---------------------------------------------------------------------------------------------

type Ev map[string]any

type Recorder struct {
	mu    sync.Mutex
	seq   int
	trace int
	f     *os.File
	w     *bufio.Writer
	mem   []Ev // in-memory copy of the current trace (optional)
	keep  bool
	lines int
	// Sync: flush after every event (traces that must survive a crash of the process)
	Sync bool
}

func NewRecorder(path string) (*Recorder, error) {
	f, err := os.Create(path)
	if err != nil {
		return nil, err
	}
	return &Recorder{f: f, w: bufio.NewWriterSize(f, 1<<20)}, nil
}

func (r *Recorder) NextTrace() int {
	r.mu.Lock()
	defer r.mu.Unlock()
	r.trace++
	r.seq = 0
	r.mem = nil
	return r.trace
}

func (r *Recorder) Emit(ev Ev) {
	r.mu.Lock()
	defer r.mu.Unlock()
	r.emitLocked(ev)
}

func (r *Recorder) emitLocked(ev Ev) {
	r.seq++
	ev["t"] = r.trace
	ev["seq"] = r.seq
	b, err := json.Marshal(ev)
	if err != nil {
		panic(err)
	}
	r.w.Write(b)
	r.w.WriteByte('\n')
	if r.Sync {
		r.w.Flush()
	}
	r.lines++
	if r.keep {
		r.mem = append(r.mem, ev)
	}
}

func (r *Recorder) Close() error {
	r.mu.Lock()
	defer r.mu.Unlock()
	if err := r.w.Flush(); err != nil {
		return err
	}
	return r.f.Close()
}

func (r *Recorder) Flush() {
	r.mu.Lock()
	defer r.mu.Unlock()
	r.w.Flush()
}

// ---------------------------------------------------------------------------------------------
// Env: interposer for fan2go's integer file I/O (util.ReadIntFromFile / WriteIntToFile[Atomic]).
// Registered paths live in memory (the real files exist as well so that os.Stat based feature
// detection sees a normal tree). All accesses are serialized by one mutex, which gives the fake
// tree the per-attribute atomicity of sysfs, and are logged in linearization order.
// ---------------------------------------------------------------------------------------------

type IO struct {
	Op   string // "r" | "w"
	Path string // short name of the register
	Val  int
	Err  bool
	Ign  bool // write reported as success but ignored by the "driver"
}

type ReadHook func(e *Env, name string) (val int, err error, handled bool)
type WriteHook func(e *Env, name string, val int) (err error, ignore bool, handled bool)

type Env struct {
	mu    sync.Mutex
	Dir   string
	vals  map[string]int    // path -> value
	names map[string]string // path -> short name
	paths map[string]string // short name -> path
	// optional hooks, called under the mutex
	OnRead  ReadHook
	OnWrite WriteHook
	// computed registers (plant): name -> function of env
	Computed map[string]func(e *Env) int
	// post-write transformation (quantising registers): name -> f(written) = stored
	Quant map[string]func(v int) int
	log   []IO
	Rec   *Recorder // when set, every I/O is also emitted as an event
	RecIO bool
	nread map[string]int
	nwrit map[string]int
	// registers that live in real files accessed outside the interposer (cmd fans)
	fileBacked map[string]bool
}

var (
	curEnvMu sync.RWMutex
	curEnv   *Env
)

func InstallEnv(e *Env) {
	curEnvMu.Lock()
	curEnv = e
	curEnvMu.Unlock()
	util.VerifReadInt = func(path string) (int, error, bool) {
		curEnvMu.RLock()
		env := curEnv
		curEnvMu.RUnlock()
		if env == nil {
			return 0, nil, false
		}
		return env.readInt(path)
	}
	util.VerifWriteInt = func(value int, path string, atomic bool) (error, bool) {
		curEnvMu.RLock()
		env := curEnv
		curEnvMu.RUnlock()
		if env == nil {
			return nil, false
		}
		return env.writeInt(value, path)
	}
}

func NewEnv(dir string) *Env {
	return &Env{
		Dir:      dir,
		vals:     map[string]int{},
		names:    map[string]string{},
		paths:    map[string]string{},
		Computed: map[string]func(e *Env) int{},
		Quant:    map[string]func(v int) int{},
		nread:    map[string]int{},
		nwrit:    map[string]int{},
	}
}

// Register creates the real file and registers the path under a short name.
func (e *Env) Register(name string, rel string, val int) string {
	p := filepath.Join(e.Dir, rel)
	_ = os.MkdirAll(filepath.Dir(p), 0755)
	_ = os.WriteFile(p, []byte(strconv.Itoa(val)), 0644)
	e.mu.Lock()
	e.vals[p] = val
	e.names[p] = name
	e.paths[name] = p
	e.mu.Unlock()
	return p
}

func (e *Env) Path(name string) string { return e.paths[name] }

func (e *Env) Get(name string) int {
	e.mu.Lock()
	defer e.mu.Unlock()
	return e.getLocked(name)
}

func (e *Env) getLocked(name string) int {
	if f, ok := e.Computed[name]; ok {
		return f(e)
	}
	if e.fileBacked[name] {
		return readIntFile(e.paths[name])
	}
	return e.vals[e.paths[name]]
}

// Raw returns the stored value without applying computed registers. Must hold the mutex
// (use from hooks / computed functions).
func (e *Env) Raw(name string) int { return e.vals[e.paths[name]] }

// Set changes a register from outside fan2go (third party, plant).
func (e *Env) Set(name string, v int) {
	e.mu.Lock()
	if e.fileBacked[name] {
		_ = os.WriteFile(e.paths[name], []byte(strconv.Itoa(v)), 0644)
	} else {
		e.vals[e.paths[name]] = v
	}
	e.mu.Unlock()
}

func (e *Env) DrainLog() []IO {
	e.mu.Lock()
	defer e.mu.Unlock()
	l := e.log
	e.log = nil
	return l
}

func (e *Env) Counts(name string) (reads, writes int) {
	e.mu.Lock()
	defer e.mu.Unlock()
	return e.nread[name], e.nwrit[name]
}

func (e *Env) record(io IO) {
	e.log = append(e.log, io)
	if e.Rec != nil && e.RecIO {
		ev := Ev{"ev": "IO", "op": io.Op, "reg": io.Path, "val": io.Val, "err": io.Err}
		if io.Ign {
			ev["ign"] = true
		}
		e.Rec.Emit(ev)
	}
}

func (e *Env) readInt(path string) (int, error, bool) {
	e.mu.Lock()
	defer e.mu.Unlock()
	name, ok := e.names[path]
	if !ok {
		return 0, nil, false
	}
	e.nread[name]++
	if e.OnRead != nil {
		if v, err, handled := e.OnRead(e, name); handled {
			e.record(IO{Op: "r", Path: name, Val: v, Err: err != nil})
			if err != nil {
				return -1, err, true
			}
			return v, nil, true
		}
	}
	v := e.getLocked(name)
	e.record(IO{Op: "r", Path: name, Val: v})
	return v, nil, true
}

func (e *Env) writeInt(value int, path string) (error, bool) {
	e.mu.Lock()
	defer e.mu.Unlock()
	name, ok := e.names[path]
	if !ok {
		// fan2go resolves symlinks before writing; accept the resolved path too
		return nil, false
	}
	e.nwrit[name]++
	store := func() {
		v := value
		if q, ok := e.Quant[name]; ok {
			v = q(value)
		}
		e.vals[path] = v
	}
	if e.OnWrite != nil {
		if err, ignore, handled := e.OnWrite(e, name, value); handled {
			e.record(IO{Op: "w", Path: name, Val: value, Err: err != nil, Ign: ignore})
			if err != nil {
				return err, true
			}
			if !ignore {
				store()
			}
			return nil, true
		}
	}
	e.record(IO{Op: "w", Path: name, Val: value})
	store()
	return nil, true
}

// ---------------------------------------------------------------------------------------------
// helpers
// ---------------------------------------------------------------------------------------------

func scratchDir(prefix string) string {
	base := os.Getenv("VERIF_SCRATCH")
	if base == "" {
		base = "/dev/shm"
	}
	d, err := os.MkdirTemp(base, prefix)
	if err != nil {
		panic(err)
	}
	return d
}

func envInt(name string, def int) int {
	if s := os.Getenv(name); s != "" {
		if v, err := strconv.Atoi(s); err == nil {
			return v
		}
	}
	return def
}

func envStr(name, def string) string {
	if s := os.Getenv(name); s != "" {
		return s
	}
	return def
}

// pairs renders an int map as a sorted list of [key, value] pairs (TLC's JSON module turns
// JSON objects into records with string fields, so integer-keyed maps are logged as pairs).
func pairs(m map[int]int) [][2]int {
	keys := make([]int, 0, len(m))
	for k := range m {
		keys = append(keys, k)
	}
	sort.Ints(keys)
	out := make([][2]int, 0, len(m))
	for _, k := range keys {
		out = append(out, [2]int{k, m[k]})
	}
	return out
}

// milli returns floor(x*1000) clamped to +-10^9 (floats never enter TLC)
func milli(x float64) int {
	if math.IsNaN(x) {
		return -1000000007
	}
	v := math.Floor(x * 1000)
	if v > 1e9 {
		return 1000000000
	}
	if v < -1e9 {
		return -1000000000
	}
	return int(v)
}

func must(err error) {
	if err != nil {
		panic(err)
	}
}

func silenceTrace() { controller.VerifTrace = nil }

func fmtErr(err error) string {
	if err == nil {
		return ""
	}
	s := err.Error()
	s = strings.ReplaceAll(s, "\n", " ")
	if len(s) > 200 {
		s = s[:200]
	}
	return s
}

var _ = fmt.Sprintf
