//go:build verif

package verifharness

import (
	"bufio"
	"encoding/json"
	"fmt"
	"math"
	"math/rand"
	"os"
	"os/exec"
	"path/filepath"
	"sort"
	"strings"
	"syscall"
	"testing"
	"time"

	"github.com/markusressel/fan2go/internal/configuration"
	"github.com/markusressel/fan2go/internal/fans"
	"github.com/markusressel/fan2go/internal/persistence"
	bolt "go.etcd.io/bbolt"
)

// value tokens -> concrete maps (negative keys, fractional and large values, empty map)
var c14Data = map[string]map[int]float64{
	"v1": {0: 0, 128: 1500, 255: 3000},
	"v2": {-5: 12.5, 1000: 1e9, 7: 0.001, 42: 1234.5678, 43: 1e300, 44: -4.9e-324, 45: 9007199254740992},
	"v3": {},
	"vf": func() map[int]float64 {
		m := map[int]float64{}
		for i := 0; i <= 255; i++ {
			m[i] = float64(i)
		}
		return m
	}(),
}
var c14Maps = map[string]map[int]int{
	"v1": {0: 0, 64: 128, 255: 255},
	"v2": {-3: 7, 300: -1, 17: 100000, 98: 9007199254740993, 99: math.MaxInt64, -99: math.MinInt64}, // (integers are stored as integers: exact beyond 2^53)
	"v3": {},
}

func canon(v any) string {
	b, _ := json.Marshal(v)
	return string(b)
}

func dataToken(m map[int]float64) string {
	for k, v := range c14Data {
		if canon(v) == canon(m) {
			return k
		}
	}
	return "unknown:" + canon(m)
}

func mapToken(m map[int]int) string {
	for k, v := range c14Maps {
		if canon(v) == canon(m) {
			return k
		}
	}
	return "unknown:" + canon(m)
}

type c14DB struct {
	path  string
	p     persistence.Persistence
	idset int
}

// the model's fan ids a, b, c stand for concrete ids that are as confusable as a configuration allows:
// proper prefixes of each other, differing only in case, or containing separators and blanks
var c14IdSets = []map[string]string{
	{"a": "fan1", "b": "fan10", "c": "fan"},
	{"a": "a", "b": "b", "c": "c"},
	{"a": "cpu:0", "b": "CPU:0", "c": "cpu:00"},
	{"a": "case fan/1", "b": "case fan", "c": "case fan/1/"},
	{"a": "f", "b": "f\x00", "c": "f.pwmMap"},
}

func (d *c14DB) real(id string) string { return c14IdSets[d.idset%len(c14IdSets)][id] }

// kindOf: in every fourth scenario fan "b" is a command fan and fan "c" a file fan (their RPM curve data is not measured:
// what is stored for them is the fan's built-in linear curve, value token "vf")
func (d *c14DB) kindOf(id string) string {
	if d.idset%4 == 3 {
		switch id {
		case "b":
			return "cmd"
		case "c":
			return "file"
		}
	}
	return "hwmon"
}

// stored returns the value token that a save of kind k with token v leaves in the database
func (d *c14DB) stored(k, id, v string) string {
	if k == "data" && d.kindOf(id) != "hwmon" {
		return "vf"
	}
	return v
}

func (d *c14DB) fan(id string, data map[int]float64) fans.Fan {
	switch d.kindOf(id) {
	case "file":
		return &fans.FileFan{Config: configuration.FanConfig{ID: d.real(id), File: &configuration.FileFanConfig{Path: "/nonexistent"}}}
	case "cmd":
		return &fans.CmdFan{Config: configuration.FanConfig{ID: d.real(id), Cmd: &configuration.CmdFanConfig{}}}
	}
	f := &fans.HwMonFan{Config: configuration.FanConfig{ID: d.real(id)}}
	if data != nil {
		cp := map[int]float64{}
		for k, v := range data {
			cp[k] = v
		}
		f.FanCurveData = &cp
	}
	return f
}

func (d *c14DB) save(kind, id, tok string) error {
	if kind == "data" {
		return d.p.SaveFanPwmData(d.fan(id, c14Data[tok]))
	}
	cp := map[int]int{}
	for k, v := range c14Maps[tok] {
		cp[k] = v
	}
	return d.p.SaveFanPwmMap(d.real(id), cp)
}

// load returns (res, got): found / notfound / discarded / error
func (d *c14DB) load(kind, id string) (string, string) {
	if kind == "data" {
		m, err := d.p.LoadFanPwmData(d.fan(id, nil))
		switch {
		case err == nil && m == nil:
			return "discarded", ""
		case err == nil:
			return "found", dataToken(m)
		case os.IsNotExist(err) || strings.Contains(err.Error(), "not exist"):
			return "notfound", ""
		default:
			return "error", err.Error()
		}
	}
	m, err := d.p.LoadFanPwmMap(d.real(id))
	switch {
	case err == nil && m == nil:
		return "discarded", ""
	case err == nil:
		return "found", mapToken(m)
	case os.IsNotExist(err) || strings.Contains(err.Error(), "not exist"):
		return "notfound", ""
	default:
		return "error", err.Error()
	}
}

func (d *c14DB) del(kind, id string) error {
	if kind == "data" {
		return d.p.DeleteFanPwmData(d.fan(id, nil))
	}
	return d.p.DeleteFanPwmMap(d.real(id))
}

// damage overwrites the stored bytes of an entry with something that cannot be decoded
func (d *c14DB) damage(kind, id string) bool {
	id = d.real(id)
	db, err := bolt.Open(d.path, 0600, &bolt.Options{Timeout: time.Second})
	must(err)
	defer db.Close()
	bucket := persistence.BucketFans
	if kind == "map" {
		bucket = persistence.BucketFanPwmMap
	}
	done := false
	must(db.Update(func(tx *bolt.Tx) error {
		b := tx.Bucket([]byte(bucket))
		if b == nil || b.Get([]byte(id)) == nil {
			return nil
		}
		done = true
		return b.Put([]byte(id), []byte("{\"1\": not json"))
	}))
	return done
}

var c14Kinds = []string{"data", "map"}
var c14Fans = []string{"a", "b", "c"}
var c14Vals = []string{"v1", "v2", "v3"}

func c14Probe(rec *Recorder, d *c14DB) {
	for _, k := range c14Kinds {
		for _, f := range c14Fans {
			res, got := d.load(k, f)
			rec.Emit(Ev{"ev": "Op", "op": "load", "k": k, "f": f, "v": "", "res": res, "got": got, "probe": true})
		}
	}
}

// TestDriveC14: random operation sequences on a real bbolt file with a full read-back after every step.
func TestDriveC14(t *testing.T) {
	out := os.Getenv("VERIF_OUT")
	if out == "" {
		t.Skip("VERIF_OUT not set")
	}
	if os.Getenv("VERIF_C14_WORKER") != "" {
		c14Worker()
		return
	}
	seed := int64(envInt("VERIF_SEED", 1))
	n := envInt("VERIF_N", 10)
	length := envInt("VERIF_LEN", 12)
	kills := envInt("VERIF_KILLS", 5)
	rec, err := NewRecorder(out)
	must(err)
	defer rec.Close()
	r := rand.New(rand.NewSource(seed))
	errOf := func(e error) string {
		if e != nil {
			return "error"
		}
		return "ok"
	}
	for i := 0; i < n; i++ {
		dir := scratchDir("verif.c14.")
		d := &c14DB{path: filepath.Join(dir, "sub", "fan2go.db"), idset: i}
		d.p = persistence.NewPersistence(d.path)
		must(d.p.Init())
		rec.NextTrace()
		rec.Emit(Ev{"ev": "Init"})
		for s := 0; s < length; s++ {
			k := c14Kinds[r.Intn(2)]
			f := c14Fans[r.Intn(3)]
			switch x := r.Intn(10); {
			case x < 4:
				v := c14Vals[r.Intn(3)]
				rec.Emit(Ev{"ev": "Op", "op": "save", "k": k, "f": f, "v": d.stored(k, f, v), "res": errOf(d.save(k, f, v)), "got": ""})
			case x < 6:
				rec.Emit(Ev{"ev": "Op", "op": "delete", "k": k, "f": f, "v": "", "res": errOf(d.del(k, f)), "got": ""})
			case x < 7:
				if d.damage(k, f) {
					rec.Emit(Ev{"ev": "Op", "op": "damage", "k": k, "f": f, "v": "", "res": "ok", "got": ""})
				}
			case x < 8:
				// "reopen": a fresh persistence object on the same file (every operation reopens the file anyway)
				d.p = persistence.NewPersistence(d.path)
			default:
				res, got := d.load(k, f)
				rec.Emit(Ev{"ev": "Op", "op": "load", "k": k, "f": f, "v": "", "res": res, "got": got, "probe": false})
			}
			c14Probe(rec, d)
		}
		os.RemoveAll(dir)
	}
	// crash points: a worker process saves in a loop and is killed with SIGKILL at a random moment
	for i := 0; i < kills; i++ {
		dir := scratchDir("verif.c14k.")
		d := &c14DB{path: filepath.Join(dir, "fan2go.db"), idset: i}
		d.p = persistence.NewPersistence(d.path)
		must(d.p.Init())
		rec.NextTrace()
		rec.Emit(Ev{"ev": "Init"})
		// some initial content, written by this process
		for _, k := range c14Kinds {
			for _, f := range c14Fans {
				if r.Intn(2) == 0 {
					v := c14Vals[r.Intn(3)]
					rec.Emit(Ev{"ev": "Op", "op": "save", "k": k, "f": f, "v": d.stored(k, f, v), "res": errOf(d.save(k, f, v)), "got": ""})
				}
			}
		}
		// the worker announces every save on its stdout before starting it and confirms it afterwards
		self, _ := os.Executable()
		cmd := exec.Command(self, "-test.run", "^TestDriveC14$")
		cmd.Env = append(os.Environ(), "VERIF_C14_WORKER="+d.path, fmt.Sprintf("VERIF_C14_WSEED=%d", r.Int63()), fmt.Sprintf("VERIF_C14_IDSET=%d", d.idset))
		stdout, err := cmd.StdoutPipe()
		must(err)
		must(cmd.Start())
		sc := bufio.NewScanner(stdout)
		killAfter := 1 + r.Intn(25) // kill during the n-th announced save
		delay := time.Duration(r.Intn(3000)) * time.Microsecond
		type sv struct{ k, f, v string }
		var inflight *sv
		count := 0
		for sc.Scan() {
			parts := strings.Fields(sc.Text())
			if len(parts) == 4 && parts[0] == "begin" {
				inflight = &sv{parts[1], parts[2], parts[3]}
				count++
				if count == killAfter {
					time.Sleep(delay)
					_ = cmd.Process.Signal(syscall.SIGKILL)
					break
				}
			} else if len(parts) == 4 && parts[0] == "done" {
				rec.Emit(Ev{"ev": "Op", "op": "save", "k": parts[1], "f": parts[2], "v": d.stored(parts[1], parts[2], parts[3]), "res": "ok", "got": ""})
				inflight = nil
			}
		}
		// drain: the worker went on until the kill took effect
		for sc.Scan() {
			parts := strings.Fields(sc.Text())
			if len(parts) == 4 && parts[0] == "begin" {
				inflight = &sv{parts[1], parts[2], parts[3]}
			} else if len(parts) == 4 && parts[0] == "done" {
				rec.Emit(Ev{"ev": "Op", "op": "save", "k": parts[1], "f": parts[2], "v": d.stored(parts[1], parts[2], parts[3]), "res": "ok", "got": ""})
				inflight = nil
			}
		}
		_ = cmd.Wait()
		if inflight != nil {
			rec.Emit(Ev{"ev": "Op", "op": "crashsave", "k": inflight.k, "f": inflight.f, "v": d.stored(inflight.k, inflight.f, inflight.v), "res": "killed", "got": ""})
		}
		// a fresh view reads everything back
		d.p = persistence.NewPersistence(d.path)
		c14Probe(rec, d)
		c14Probe(rec, d)
		os.RemoveAll(dir)
	}
}

// c14Worker saves random entries forever, announcing every save; it is killed by the parent.
func c14Worker() {
	path := os.Getenv("VERIF_C14_WORKER")
	d := &c14DB{path: path, p: persistence.NewPersistence(path), idset: envInt("VERIF_C14_IDSET", 0)}
	seed := int64(envInt("VERIF_C14_WSEED", 1))
	r := rand.New(rand.NewSource(seed))
	w := bufio.NewWriter(os.Stdout)
	for i := 0; i < 200; i++ {
		k, f, v := c14Kinds[r.Intn(2)], c14Fans[r.Intn(3)], c14Vals[r.Intn(3)]
		fmt.Fprintf(w, "begin %s %s %s\n", k, f, v)
		w.Flush()
		if err := d.save(k, f, v); err != nil {
			fmt.Fprintf(w, "error %v\n", err)
		} else {
			fmt.Fprintf(w, "done %s %s %s\n", k, f, v)
		}
		w.Flush()
	}
	os.Exit(0)
}

var _ = sort.Ints

// TestReplayC14 replays operation sequences generated by TLC from spec/Gen_Persist.tla on the real
// persistence (one fresh bbolt file per sequence), with the full read-back after every step.
func TestReplayC14(t *testing.T) {
	out := os.Getenv("VERIF_OUT")
	sched := os.Getenv("VERIF_SCHED")
	if out == "" || sched == "" {
		t.Skip("VERIF_OUT / VERIF_SCHED not set")
	}
	shard, shards := envInt("VERIF_SHARD", 0), envInt("VERIF_SHARDS", 1)
	rec, err := NewRecorder(out)
	must(err)
	defer rec.Close()
	f, err := os.Open(sched)
	must(err)
	defer f.Close()
	sc := bufio.NewScanner(f)
	sc.Buffer(make([]byte, 1<<20), 1<<24)
	n := 0
	errOf := func(e error) string {
		if e != nil {
			return "error"
		}
		return "ok"
	}
	for sc.Scan() {
		n++
		if (n-1)%shards != shard {
			continue
		}
		var ops []map[string]string
		must(json.Unmarshal(sc.Bytes(), &ops))
		dir := scratchDir("verif.c14r.")
		d := &c14DB{path: filepath.Join(dir, "fan2go.db"), idset: n}
		d.p = persistence.NewPersistence(d.path)
		must(d.p.Init())
		rec.NextTrace()
		rec.Emit(Ev{"ev": "Init", "source": "tlc"})
		for _, o := range ops {
			k, fn, v := o["k"], o["f"], o["v"]
			switch o["op"] {
			case "save":
				rec.Emit(Ev{"ev": "Op", "op": "save", "k": k, "f": fn, "v": d.stored(k, fn, v), "res": errOf(d.save(k, fn, v)), "got": ""})
			case "delete":
				rec.Emit(Ev{"ev": "Op", "op": "delete", "k": k, "f": fn, "v": "", "res": errOf(d.del(k, fn)), "got": ""})
			case "damage":
				if d.damage(k, fn) {
					rec.Emit(Ev{"ev": "Op", "op": "damage", "k": k, "f": fn, "v": "", "res": "ok", "got": ""})
				}
			case "load":
				res, got := d.load(k, fn)
				rec.Emit(Ev{"ev": "Op", "op": "load", "k": k, "f": fn, "v": "", "res": res, "got": got, "probe": false})
			}
			c14Probe(rec, d)
		}
		os.RemoveAll(dir)
	}
}
