//go:build verif

package verifharness

import (
	"bufio"
	"bytes"
	"context"
	"encoding/json"
	"fmt"
	"math/rand"
	"os"
	"os/exec"
	"path/filepath"
	"strconv"
	"sync"
	"testing"
	"testing/synctest"
	"time"

	"github.com/markusressel/fan2go/internal"
	"github.com/markusressel/fan2go/internal/configuration"
	"github.com/markusressel/fan2go/internal/curves"
	"github.com/markusressel/fan2go/internal/sensors"
)

// ---------------------------------------------------------------------------------------------
// C09: faults injected into a running closed loop: real sensor (hwmon/file/cmd) + real sensor
// monitor + real curve (linear / PID / function over both) + real controller.Run (hwmon/file/cmd
// fan) + plant, in a bubble. The scenarios run in a child process: a panic of fan2go is an
// observation (the parent records "crashed" for the scenario that was running and goes on with
// the next one), not the death of the driver.
// ---------------------------------------------------------------------------------------------

type c09Fault struct {
	Kind  string // sensorRead | sensorGarbage | rpmRead | pwmRead | pwmWrite | fanReadBoth | noExec
	Cycle int    // injected after this many completed control cycles
	N     int    // number of consecutive accesses that fail
}

type c09Scenario struct {
	Idx        int
	FanKind    string
	SensorKind string
	CurveKind  string // linear | pid | function
	Faults     []c09Fault
	Seed       int64
}

func c09Scenarios(seed int64, n int, pairs bool) []c09Scenario {
	r := rand.New(rand.NewSource(seed))
	kinds := []string{"hwmon", "file", "cmd"}
	if os.Getenv("VERIF_NOCMD") != "" {
		kinds = []string{"hwmon", "file"}
	}
	curvesK := []string{"linear", "pid", "function"}
	var all []c09Scenario
	idx := 0
	for _, fk := range kinds {
		for _, sk := range kinds {
			for _, ck := range curvesK {
				fks := []string{"sensorRead", "sensorGarbage", "rpmRead", "pwmRead", "pwmWrite", "fanReadBoth", "sensorDead"}
				if fk == "cmd" || sk == "cmd" {
					fks = append(fks, "noExec")
				}
				for _, f1 := range fks {
					for _, cyc := range []int{-1, 0, 1, 3} {
						if f1 == "sensorDead" && cyc != 0 {
							continue // (long scenarios: one placement is enough)
						}
						sc := c09Scenario{FanKind: fk, SensorKind: sk, CurveKind: ck,
							Faults: []c09Fault{{Kind: f1, Cycle: cyc, N: 1 + r.Intn(4)}}, Seed: r.Int63()}
						all = append(all, sc)
						if pairs {
							f2 := fks[r.Intn(len(fks))]
							sc2 := sc
							sc2.Faults = append([]c09Fault{}, sc.Faults...)
							sc2.Faults = append(sc2.Faults, c09Fault{Kind: f2, Cycle: cyc + r.Intn(3), N: 1 + r.Intn(2)})
							sc2.Seed = r.Int63()
							all = append(all, sc2)
						}
					}
				}
			}
		}
	}
	r.Shuffle(len(all), func(i, j int) { all[i], all[j] = all[j], all[i] })
	// this shard's share of the enumeration
	shard, shards := envInt("VERIF_SHARD", 0), envInt("VERIF_SHARDS", 1)
	var mine []c09Scenario
	for i, sc := range all {
		if i%shards == shard {
			mine = append(mine, sc)
		}
	}
	all = mine
	if n > 0 && n < len(all) {
		all = all[:n]
	}
	for i := range all {
		all[i].Idx = idx
		idx++
	}
	return all
}

// TestDriveC09 is the parent: it re-executes itself as a child that runs the scenarios and
// restarts the child after every crash.
func TestDriveC09(t *testing.T) {
	out := os.Getenv("VERIF_OUT")
	if out == "" {
		t.Skip("VERIF_OUT not set")
	}
	if os.Getenv("VERIF_C09_CHILD") != "" {
		c09Child(t, out)
		return
	}
	seed := int64(envInt("VERIF_SEED", 1))
	n := envInt("VERIF_N", 20)
	scs := c09Scenarios(seed, n, envInt("VERIF_PAIRS", 0) == 1)
	_ = os.Remove(out)
	from := 0
	self, err := os.Executable()
	must(err)
	restarts := 0
	hangs := 0
	for from < len(scs) {
		cmd := exec.Command(self, "-test.run", "^TestDriveC09$", "-test.timeout", "1500s")
		cmd.Env = append(os.Environ(), "VERIF_C09_CHILD=1", "VERIF_C09_FROM="+strconv.Itoa(from))
		var ob bytes.Buffer
		cmd.Stdout, cmd.Stderr = &ob, &ob
		must(cmd.Start())
		// watchdog: a child that records nothing for a long stretch of REAL time hangs (inside a bubble a goroutine that is
		// blocked on a lock stops the fake clock, so no timeout of the scenario can fire): it is killed, and the scenario
		// that was running is recorded like one that crashed
		exited := make(chan error, 1)
		go func() { exited <- cmd.Wait() }()
		var err error
		hung := false
		lastSize, lastChange := int64(-1), time.Now()
	wait:
		for {
			select {
			case err = <-exited:
				break wait
			case <-time.After(2 * time.Second):
				if fi, e := os.Stat(out); e == nil && fi.Size() != lastSize {
					lastSize, lastChange = fi.Size(), time.Now()
				}
				if time.Since(lastChange) > 90*time.Second {
					hung = true
					_ = cmd.Process.Kill()
					err = <-exited
					break wait
				}
			}
		}
		done, open := c09Progress(out)
		if err == nil && open < 0 {
			break
		}
		if open < 0 {
			// the child died outside a scenario: infrastructure problem
			t.Fatalf("C09 child failed outside a scenario (after %d scenarios): %v\n%s", done, err, tailStr(ob.String(), 3000))
		}
		// the scenario `open` crashed the process: record it and continue after it
		// (a process that died in the middle of a write leaves a fragment of a line: it is cut off)
		if data, e0 := os.ReadFile(out); e0 == nil && len(data) > 0 {
			cut := bytes.LastIndexByte(data, '\n') + 1
			if frag := bytes.TrimSpace(data[cut:]); len(frag) > 0 && !json.Valid(frag) {
				must(os.Truncate(out, int64(cut)))
			}
		}
		f, e2 := os.OpenFile(out, os.O_APPEND|os.O_WRONLY, 0644)
		must(e2)
		fin := Ev{"ev": "Final", "crashed": true, "hung": hung, "regs": c09BeginRegs(out, open), "vt": 0, "t": open + 1, "seq": 999999,
			"output": tailStr(ob.String(), 1500)}
		b, _ := json.Marshal(fin)
		if data, _ := os.ReadFile(out); len(data) > 0 && data[len(data)-1] != '\n' {
			f.Write([]byte("\n"))
		}
		f.Write(append(b, '\n'))
		f.Close()
		from = open + 1
		restarts++
		if hung {
			hangs++
			if hangs >= 3 {
				// scenario after scenario hangs (each costs the watchdog's 90 s): what was to be observed has been
				// observed three times over, the rest of this shard's scenarios is not driven
				t.Logf("three scenarios hung: the remaining %d scenarios are not driven", len(scs)-from)
				break
			}
		}
		if restarts > len(scs) {
			t.Fatal("too many child restarts")
		}
	}
}

func tailStr(s string, n int) string {
	if len(s) > n {
		return s[len(s)-n:]
	}
	return s
}

// c09Progress scans the trace file: number of finished scenarios and the index of a scenario that
// has a Begin but no Final (-1 if none).
func c09Progress(path string) (done int, open int) {
	open = -1
	f, err := os.Open(path)
	if err != nil {
		return 0, -1
	}
	defer f.Close()
	sc := bufio.NewScanner(f)
	sc.Buffer(make([]byte, 1<<20), 1<<24)
	for sc.Scan() {
		var e map[string]any
		if json.Unmarshal(sc.Bytes(), &e) != nil {
			continue
		}
		switch e["ev"] {
		case "Begin":
			if s, ok := e["scenario"].(map[string]any); ok {
				open = int(s["idx"].(float64))
			}
		case "Final":
			open = -1
			done++
		}
	}
	return
}

func c09BeginRegs(path string, idx int) []Ev {
	f, err := os.Open(path)
	if err != nil {
		return nil
	}
	defer f.Close()
	sc := bufio.NewScanner(f)
	sc.Buffer(make([]byte, 1<<20), 1<<24)
	var regs []Ev
	for sc.Scan() {
		var e map[string]any
		if json.Unmarshal(sc.Bytes(), &e) != nil || e["ev"] != "Begin" {
			continue
		}
		regs = nil
		for _, f := range e["fans"].([]any) {
			m := f.(map[string]any)
			regs = append(regs, Ev{"id": m["id"], "pwm": m["pwm"], "mode": m["mode"], "hasData": false, "hasMap": false})
		}
	}
	return regs
}

func c09Child(t *testing.T, out string) {
	seed := int64(envInt("VERIF_SEED", 1))
	n := envInt("VERIF_N", 20)
	from := envInt("VERIF_C09_FROM", 0)
	scs := c09Scenarios(seed, n, envInt("VERIF_PAIRS", 0) == 1)
	f, err := os.OpenFile(out, os.O_CREATE|os.O_APPEND|os.O_WRONLY, 0644)
	must(err)
	rec := &Recorder{f: f, w: bufio.NewWriterSize(f, 1<<16), Sync: true}
	defer rec.Close()
	for _, sc := range scs[from:] {
		rec.mu.Lock()
		rec.trace = sc.Idx + 1
		rec.seq = 0
		rec.mu.Unlock()
		synctest.Test(t, func(t *testing.T) { runC09Scenario(rec, sc) })
		rec.Flush()
	}
}

// bgTasks runs delayed helper actions that are abandoned (not leaked) when the scenario ends.
type bgTasks struct {
	wg   sync.WaitGroup
	done chan struct{}
}

func (b *bgTasks) After(d time.Duration, fn func()) {
	b.wg.Add(1)
	go func() {
		defer b.wg.Done()
		select {
		case <-time.After(d):
			fn()
		case <-b.done:
		}
	}()
}

func (b *bgTasks) Stop() { close(b.done); b.wg.Wait() }

func runC09Scenario(rec *Recorder, sc c09Scenario) {
	bg := &bgTasks{done: make(chan struct{})}
	r := rand.New(rand.NewSource(sc.Seed))
	dir := scratchDir("verif.c09.")
	defer os.RemoveAll(dir)
	// --- fan
	rf := RunFan{ID: "f1", CurveErrAt: -1, Rest: [3]string{"ok", "ok", "ok"}, Pwm0: r.Intn(256), Mode0: 2, Quant: 64, Theta: 30}
	rf.Spec = FanSpec{Kind: sc.FanKind, HasRpm: true, HasMode: sc.FanKind == "hwmon", NeverStop: r.Intn(2) == 0, N: 4,
		Alg: []AlgSpec{{T: "direct"}, DefaultPid(200)}[r.Intn(2)]}
	if sc.FanKind != "hwmon" {
		rf.Quant = 1
		m := map[int]int{}
		for v := 0; v <= 255; v++ {
			m[v] = v
		}
		rf.Spec.CfgMap = m
	}
	if sc.FanKind == "cmd" {
		// the optional commands of a command fan: in some scenarios only setPwm (and getRpm) is configured
		switch sc.Idx % 5 {
		case 3:
			rf.Spec.NoGetPwm = true
		case 4:
			rf.Spec.NoGetPwm, rf.Spec.NoGetRpm = true, true
		}
	}
	rf.CurveID = "c09curve"
	var sensor sensors.Sensor
	sensorDir := filepath.Join(dir, "sensor")
	cfg := RunCfg{Parallel: true, Dir: dir, Fans: []RunFan{rf}, RpmPollMs: []int{200, 1000}[r.Intn(2)]}
	cfg.Setup = func(env *Env) {
		// --- sensor
		sid := "c09sensor"
		scfg := configuration.SensorConfig{ID: sid}
		must(os.MkdirAll(sensorDir, 0755))
		temp := 45000 + r.Intn(30000)
		switch sc.SensorKind {
		case "hwmon":
			p := env.Register("s.temp", "sensor/temp1_input", temp)
			scfg.HwMon = &configuration.HwMonSensorConfig{Platform: "verif", Index: 1, TempInput: p}
		case "file":
			p := env.Register("s.temp", "sensor/temp", temp)
			scfg.File = &configuration.FileSensorConfig{Path: p}
		case "cmd":
			must(os.WriteFile(filepath.Join(sensorDir, "value"), []byte(strconv.Itoa(temp)), 0644))
			script := filepath.Join(sensorDir, "read.sh")
			writeScript(script, fmt.Sprintf("m=$(cat %s 2>/dev/null)\ncase \"$m\" in\n fail) exit 3;;\n garbage) echo abc; exit 0;;\nesac\ncat %s\n",
				filepath.Join(sensorDir, "fault"), filepath.Join(sensorDir, "value")))
			scfg.Cmd = &configuration.CmdSensorConfig{Exec: script}
		}
		var err error
		sensor, err = sensors.NewSensor(scfg)
		must(err)
		v, _ := sensor.GetValue()
		sensor.SetMovingAvg(v)
		sensors.RegisterSensor(sensor)
		configuration.CurrentConfig.TempRollingWindowSize = 4
		// --- curve
		lin := configuration.CurveConfig{ID: "c09lin", Linear: &configuration.LinearCurveConfig{Sensor: sid, Min: 40, Max: 80}}
		pid := configuration.CurveConfig{ID: "c09pid", PID: &configuration.PidCurveConfig{Sensor: sid, SetPoint: 50, P: -0.05, I: -0.005, D: -0.001}}
		pid2 := configuration.CurveConfig{ID: "c09pid2", PID: &configuration.PidCurveConfig{Sensor: sid, SetPoint: 60, P: -0.02, I: -0.001, D: 0}}
		// function curves: every aggregate, nesting a linear and a PID curve, only PID curves, or a single one
		ftype := []string{"maximum", "minimum", "average", "delta", "sum", "difference"}[r.Intn(6)]
		members := [][]string{{"c09lin", "c09pid"}, {"c09pid"}, {"c09pid", "c09pid2"}, {"c09pid", "c09lin"}}[r.Intn(4)]
		fn := configuration.CurveConfig{ID: "c09fn", Function: &configuration.FunctionCurveConfig{Type: ftype, Curves: members}}
		for _, cc := range []configuration.CurveConfig{lin, pid, pid2, fn} {
			c, err := curves.NewSpeedCurve(cc)
			must(err)
			curves.RegisterSpeedCurve(c)
		}
		top := map[string]configuration.CurveConfig{"linear": lin, "pid": pid, "function": fn}[sc.CurveKind]
		top.ID = "c09curve"
		c, err := curves.NewSpeedCurve(top)
		must(err)
		curves.RegisterSpeedCurve(c)

	}
	h := NewRunHarness(rec, cfg)
	defer h.Close(false)
	ctx, cancel := context.WithCancel(context.Background())
	defer cancel()
	var wg sync.WaitGroup
	wg.Add(1)
	go func() {
		defer wg.Done()
		err := internal.NewSensorMonitor(sensor, 200*time.Millisecond).Run(ctx)
		// (RunDaemon's actor for a sensor monitor: an error is a panic; and an actor that returns takes the whole run
		// group - the daemon - down with it)
		if err != nil {
			panic(err)
		}
		if ctx.Err() == nil {
			panic("sensor monitor ended while the daemon is running")
		}
	}()
	// --- fault injection relative to completed control cycles
	cmdSub := filepath.Join(dir, "cmd_f1")
	// faults are faults of control cycles: once the restore sequence of the fan has begun nothing is injected any more and
	// what is still active on the fan's side is withdrawn (a device that refuses the restore writes as well is the subject
	// of C03, and excluded there when even the full-speed write is refused: no implementation can comply)
	var faultMu sync.Mutex
	restoring := false
	inject := func(f c09Fault) {
		faultMu.Lock()
		defer faultMu.Unlock()
		if restoring {
			return
		}
		rec.Emit(Ev{"ev": "Inject", "kind": f.Kind, "n": f.N})
		window := time.Duration(150+200*f.N) * time.Millisecond
		fileFault := func(path, mode string) {
			must(os.WriteFile(path, []byte(mode), 0644))
			bg.After(window, func() { os.Remove(path) })
		}
		switch f.Kind {
		case "sensorDead":
			// a long outage: the sensor cannot be read for two and a half minutes (hundreds of polls in a row), then it is back
			if sc.SensorKind == "cmd" {
				p := filepath.Join(sensorDir, "fault")
				must(os.WriteFile(p, []byte("fail"), 0644))
				bg.After(150*time.Second, func() { os.Remove(p) })
			} else {
				h.ReadFaultSkip("s.temp", 750, 0)
			}
		case "sensorRead", "sensorGarbage":
			mode := map[string]string{"sensorRead": "fail", "sensorGarbage": "garbage"}[f.Kind]
			if sc.SensorKind == "cmd" {
				fileFault(filepath.Join(sensorDir, "fault"), mode)
			} else {
				h.ReadFaultSkip("s.temp", f.N, f.N%2)
			}
		case "rpmRead":
			if sc.FanKind == "cmd" {
				fileFault(filepath.Join(cmdSub, "fault_rpm"), []string{"fail", "garbage", "blank", "crlf"}[f.N%4])
			} else {
				h.ReadFaultSkip("f1.rpm", f.N, f.N%2)
			}
		case "pwmRead":
			if sc.FanKind == "cmd" {
				fileFault(filepath.Join(cmdSub, "fault_get"), []string{"fail", "garbage", "blank", "crlf"}[f.N%4])
			} else {
				h.ReadFaultSkip("f1.pwm", f.N, f.N%2)
			}
		case "fanReadBoth":
			// the device does not answer at all for a moment: RPM and PWM reads fail together (same RPM poll, same cycle)
			if sc.FanKind == "cmd" {
				fileFault(filepath.Join(cmdSub, "fault_rpm"), []string{"fail", "garbage"}[f.N%2])
				fileFault(filepath.Join(cmdSub, "fault_get"), []string{"fail", "garbage"}[f.N/2%2])
			} else {
				h.ReadFaultSkip("f1.rpm", f.N+2, 0)
				h.ReadFaultSkip("f1.pwm", f.N+2, f.N%3) // 0: from the feature probe on; 1, 2: the probe(s) succeed, the read fails
			}
		case "pwmWrite":
			if sc.FanKind == "cmd" {
				fileFault(filepath.Join(cmdSub, "fault_set"), "fail")
			} else {
				h.WriteFault("f1.pwm", f.N)
			}
		case "noExec":
			// the command cannot be started at all for a while
			var script string
			if sc.SensorKind == "cmd" && (sc.FanKind != "cmd" || f.N%2 == 0) {
				script = filepath.Join(sensorDir, "read.sh")
			} else {
				script = filepath.Join(cmdSub, []string{"getpwm.sh", "setpwm.sh", "getrpm.sh"}[f.N%3])
			}
			must(os.Chmod(script, 0644))
			bg.After(window, func() { os.Chmod(script, 0755) })
		}
	}
	var mu sync.Mutex
	cycles := 0
	started := false
	pending := append([]c09Fault{}, sc.Faults...)
	last := 0
	longOutage := 0
	for _, f := range pending {
		if f.Cycle > last {
			last = f.Cycle
		}
		if f.Kind == "sensorDead" {
			longOutage = 800 // cycles: the scenario outlasts the outage
		}
	}
	h.OnEvent = func(n int, fanId, event string) {
		mu.Lock()
		defer mu.Unlock()
		if event == "LoopStarted" {
			started = true
		}
		if event == "RestoreBegin" {
			faultMu.Lock()
			restoring = true
			for _, ff := range []string{"fault_set", "fault_get", "fault_rpm"} {
				os.Remove(filepath.Join(cmdSub, ff))
			}
			for _, sf := range []string{"getpwm.sh", "setpwm.sh", "getrpm.sh"} {
				_ = os.Chmod(filepath.Join(cmdSub, sf), 0755)
			}
			h.ClearFaults("f1.")
			faultMu.Unlock()
		}
		if event == "RestoreEnd" {
			// regulation of the fan ended (control error): stop soon
			bg.After(2*time.Second, func() {
				rec.Emit(Ev{"ev": "Cancel", "why": "regulation ended"})
				cancel()
			})
		}
		fire := false
		if event == "LoopStarted" || event == "CycleEnd" {
			if event == "CycleEnd" {
				cycles++
			}
			fire = true
		}
		if !fire || !started {
			return
		}
		var rest []c09Fault
		for _, f := range pending {
			if f.Cycle <= cycles {
				go inject(f)
			} else {
				rest = append(rest, f)
			}
		}
		pending = rest
		if cycles == last+8+longOutage {
			go func() {
				rec.Emit(Ev{"ev": "Cancel", "why": "done"})
				cancel()
			}()
		}
	}
	bg.After(4*time.Minute, func() {
		rec.Emit(Ev{"ev": "Cancel", "why": "timeout"})
		cancel()
	})
	fs := []Ev{}
	for _, f := range sc.Faults {
		fs = append(fs, Ev{"kind": f.Kind, "cycle": f.Cycle, "n": f.N})
	}
	h.Start(ctx, Ev{"scenario": Ev{"idx": sc.Idx, "fan": sc.FanKind, "sensor": sc.SensorKind, "curve": sc.CurveKind, "faults": fs}})
	h.Wait()
	cancel()
	wg.Wait()
	bg.Stop()
	h.Final()
}

// TestDriveC09Restore: the regulation of a fan ends with a control error (its curve cannot be evaluated any more) and the
// device then refuses EVERY write of the restore sequence. Nothing can bring such a fan to full speed (which is why C03
// excludes the case), but fan2go must still not end abruptly: Run returns without an error (the daemon's actor panics on any
// error a controller returns) and nothing panics. Only C09_NoCrash is evaluated on these runs.
func TestDriveC09Restore(t *testing.T) {
	out := os.Getenv("VERIF_OUT")
	if out == "" {
		t.Skip("VERIF_OUT not set")
	}
	seed := int64(envInt("VERIF_SEED", 1))
	n := envInt("VERIF_N", 6)
	rec, err := NewRecorder(out)
	must(err)
	rec.Sync = true
	defer rec.Close()
	r := rand.New(rand.NewSource(seed))
	for i := 0; i < n; i++ {
		sseed := r.Int63()
		synctest.Test(t, func(t *testing.T) {
			r := rand.New(rand.NewSource(sseed))
			dir := scratchDir("verif.c09r.")
			defer os.RemoveAll(dir)
			rf := RunFan{ID: "f1", CurveErrAt: 2 + r.Intn(4), Rest: [3]string{"fail", "fail", "fail"}, Pwm0: r.Intn(256), Mode0: []int{1, 2, 2, 5}[r.Intn(4)], Quant: 1, Theta: 10}
			rf.Spec = FanSpec{Kind: []string{"hwmon", "hwmon", "file"}[r.Intn(3)], HasRpm: r.Intn(2) == 0, HasMode: r.Intn(2) == 0, NeverStop: r.Intn(2) == 0, N: 10, Alg: AlgSpec{T: "direct"}}
			if rf.Spec.Kind == "file" {
				rf.Spec.HasMode = false
			}
			m := map[int]int{}
			for v := 0; v <= 255; v++ {
				m[v] = v
			}
			rf.Spec.CfgMap = m
			cfg := RunCfg{Parallel: true, Dir: dir, Fans: []RunFan{rf}, TickMs: 200, RpmPollMs: 1000, Window: 10}
			cfg.CurveValue = func(n int) int { return 100 }
			rec.NextTrace()
			h := NewRunHarness(rec, cfg)
			defer h.Close(false)
			ctx, cancel := context.WithCancel(context.Background())
			defer cancel()
			bg := &bgTasks{done: make(chan struct{})}
			h.OnEvent = func(n int, fanId, event string) {
				if event == "RestoreEnd" {
					bg.After(2*time.Second, func() {
						rec.Emit(Ev{"ev": "Cancel", "why": "regulation ended"})
						cancel()
					})
				}
			}
			bg.After(5*time.Minute, func() {
				rec.Emit(Ev{"ev": "Cancel", "why": "timeout"})
				cancel()
			})
			h.Start(ctx, Ev{"scenario": Ev{"c09restore": true}})
			h.Wait()
			cancel()
			bg.Stop()
			h.Final()
		})
	}
}
