//go:build verif

package verifharness

import (
	"fmt"
	"math/rand"
	"os"
	"sort"
	"testing"

	"github.com/markusressel/fan2go/internal/configuration"
	"github.com/markusressel/fan2go/internal/fans"
	"github.com/markusressel/fan2go/internal/util"
)

// ---------------------------------------------------------------------------------------------
// Record-style drivers: each record is one independent observation of real code, validated by
// TLC against a definitional module (spec/Rec_*.tla).
// ---------------------------------------------------------------------------------------------

// TestDriveC12: for every map, the supported inputs computed by util.ExtractKeysWithDistinctValues
// and, for every request -50..305, the value that the controller's setPwm writes to a real hwmon
// fan (util.FindClosest + map lookup + write) and what util.FindClosest returns.
func TestDriveC12(t *testing.T) {
	out := os.Getenv("VERIF_OUT")
	if out == "" {
		t.Skip("VERIF_OUT not set")
	}
	seed := int64(envInt("VERIF_SEED", 1))
	universe := envInt("VERIF_UNIVERSE", 6)
	nrand := envInt("VERIF_N", 20)
	shard, shards := envInt("VERIF_SHARD", 0), envInt("VERIF_SHARDS", 1)
	rec, err := NewRecorder(out)
	must(err)
	defer rec.Close()
	spec := FanSpec{Kind: "hwmon", HasRpm: false, HasMode: false, N: 10, Alg: AlgSpec{T: "direct"}}
	c := NewCtl(rec, spec, 0, 1, 0)
	defer c.Close()
	// a second fan: never-stop with a configured minimum (the limits live in REQUEST space; what is written is the map's
	// output for the request - however small that output is)
	specNS := FanSpec{Kind: "hwmon", HasRpm: false, HasMode: false, N: 10, Alg: AlgSpec{T: "direct"}, NeverStop: true, CfgMin: ip(50), CfgMax: ip(240)}
	c2 := NewCtl(rec, specNS, 0, 1, 0)
	defer c2.Close()
	// a third fan: its PWM register cannot be read back (write-only attribute): no PWM sensor, every request must be written
	c3 := NewCtl(rec, FanSpec{Kind: "hwmon", HasRpm: false, HasMode: false, N: 10, Alg: AlgSpec{T: "direct"}}, 0, 1, 0)
	defer c3.Close()
	c3.Env.mu.Lock()
	c3.Env.OnRead = func(e *Env, name string) (int, error, bool) {
		if name == "pwm" {
			return 0, fmt.Errorf("write-only attribute"), true
		}
		return 0, nil, false
	}
	c3.Env.mu.Unlock()
	InstallEnv(c.Env)
	seqRand := rand.New(rand.NewSource(seed*31 + int64(shard)))
	emit := func(m map[int]int, label string) {
		mm := map[int]int{}
		for k, v := range m {
			mm[k] = v
		}
		c.C.VerifSetPwmMap(mm)
		keys := util.ExtractKeysWithDistinctValues(m)
		sort.Ints(keys)
		vec := make([]int, 0, 356)
		fc := make([]int, 0, 356)
		for req := -50; req <= 305; req++ {
			c.Env.Set("pwm", -7) // never equal to a map output: the write always happens
			c.Env.DrainLog()
			err := c.C.VerifSetPwm(req)
			w := -1000
			if err == nil {
				w = c.Env.Get("pwm")
			}
			vec = append(vec, w)
			fc = append(fc, util.FindClosest(req, keys))
		}
		rec.Emit(Ev{"ev": "Map", "label": label, "map": pairs(m), "keys": keys, "vec": vec, "fc": fc})
		// a SEQUENCE of requests on the same fan, the register left as the previous request left it (or as a third
		// party left it: equal to a key, to an output, or arbitrary): whatever the fan currently shows, it must end
		// up with the nearest supported value of the new request
		var cand []int
		for k, v := range m {
			cand = append(cand, k, v)
		}
		sort.Ints(cand)
		reqs, regs, pokes := []int{}, []int{}, []int{}
		for i := 0; i < 40; i++ {
			poke := -1
			switch seqRand.Intn(4) {
			case 0:
				poke = cand[seqRand.Intn(len(cand))]
				c.Env.Set("pwm", poke)
			}
			req := cand[seqRand.Intn(len(cand))]
			if seqRand.Intn(3) == 0 {
				req = seqRand.Intn(276) - 10
			}
			c.Env.DrainLog()
			w := -1000
			if err := c.C.VerifSetPwm(req); err == nil {
				w = c.Env.Get("pwm")
			}
			reqs, regs, pokes = append(reqs, req), append(regs, w), append(pokes, poke)
		}
		rec.Emit(Ev{"ev": "Seq", "label": label, "map": pairs(m), "reqs": reqs, "regs": regs, "pokes": pokes})
		// the never-stop fan: the requests the controller can issue for it (minimum .. maximum)
		InstallEnv(c2.Env)
		mm2 := map[int]int{}
		for k, v := range m {
			mm2[k] = v
		}
		c2.C.VerifSetPwmMap(mm2)
		nsReqs, nsRegs := []int{}, []int{}
		for req := 50; req <= 240; req += 1 + seqRand.Intn(7) {
			c2.Env.Set("pwm", -7)
			c2.Env.DrainLog()
			w := -1000
			if err := c2.C.VerifSetPwm(req); err == nil {
				w = c2.Env.Get("pwm")
			}
			nsReqs, nsRegs = append(nsReqs, req), append(nsRegs, w)
		}
		rec.Emit(Ev{"ev": "Seq", "label": label + "/neverStop", "map": pairs(m), "reqs": nsReqs, "regs": nsRegs, "pokes": []int{}})
		// the fan without read-back: a sequence of requests (inputs, outputs and arbitrary values), nothing is reset in between
		InstallEnv(c3.Env)
		mm3 := map[int]int{}
		for k, v := range m {
			mm3[k] = v
		}
		c3.C.VerifSetPwmMap(mm3)
		woReqs, woRegs := []int{}, []int{}
		for i := 0; i < 30; i++ {
			req := cand[seqRand.Intn(len(cand))]
			if seqRand.Intn(3) == 0 {
				req = seqRand.Intn(276) - 10
			}
			w := -1000
			if err := c3.C.VerifSetPwm(req); err == nil {
				c3.Env.mu.Lock()
				w = c3.Env.Raw("pwm")
				c3.Env.mu.Unlock()
			}
			woReqs, woRegs = append(woReqs, req), append(woRegs, w)
		}
		InstallEnv(c.Env)
		rec.Emit(Ev{"ev": "Seq", "label": label + "/writeOnly", "map": pairs(m), "reqs": woReqs, "regs": woRegs, "pokes": []int{}})
	}
	// where the controller takes its PWM map from (the real computePwmMap of a controller on a real database): a map in
	// the fan's configuration, a map stored by an earlier run (for the same fan id), both (the configuration was edited
	// after the first run), or neither (identity register: the sweep finds the identity)
	if shard == 0 {
		sparse := map[int]int{0: 0, 3: 1, 5: 2, 8: 3, 128: 60, 255: 120}
		ident := map[int]int{}
		coarse := map[int]int{}
		for v := 0; v <= 255; v++ {
			ident[v] = v
			coarse[v] = v / 2 * 2
		}
		for _, kind := range []string{"hwmon", "file", "cmd"} {
			for _, cfgMap := range []map[int]int{nil, sparse} {
				for _, stored := range []map[int]int{nil, ident, coarse} {
					if kind == "cmd" && os.Getenv("VERIF_NOCMD") != "" {
						continue
					}
					sp := FanSpec{Kind: kind, HasRpm: false, HasMode: false, N: 10, Alg: AlgSpec{T: "direct"}, CfgMap: cfgMap}
					cs := NewCtl(rec, sp, 40, 1, 0)
					if stored != nil {
						must(cs.Pers.SaveFanPwmMap(cs.Fan.GetId(), stored))
					}
					cs.C.VerifSetPwmMap(nil)
					errc := cs.C.VerifComputePwmMap()
					got := cs.C.VerifState().PwmMap
					cs.C.VerifSetPwmMap(got) // (Run: updateDistinctPwmValues)
					// ... and what is written for a few requests afterwards
					reqs, regs := []int{}, []int{}
					for _, req := range []int{0, 1, 4, 6, 7, 9, 64, 128, 200, 255} {
						w := -1000
						if err := cs.C.VerifSetPwm(req); err == nil {
							w = cs.reg("pwm")
						}
						reqs, regs = append(reqs, req), append(regs, w)
					}
					e := Ev{"ev": "MapSrc", "kind": kind, "cfg": [][2]int{}, "stored": [][2]int{}, "got": pairs(got), "err": errc != nil, "reqs": reqs, "regs": regs}
					if cfgMap != nil {
						e["cfg"] = pairs(cfgMap)
					}
					if stored != nil {
						e["stored"] = pairs(stored)
					}
					rec.Emit(e)
					cs.Close()
				}
			}
		}
		InstallEnv(c.Env)
	}
	// exhaustive: all maps over a key universe (incl. adjacent keys, 0 and 255), outputs from 3 values
	positions := []int{0, 1, 2, 100, 101, 128, 200, 254, 255, 50, 51, 150}[:universe]
	sort.Ints(positions)
	outs := []int{0, 128, 255}
	idx := 0
	var rec3 func(i int, m map[int]int)
	rec3 = func(i int, m map[int]int) {
		if i == len(positions) {
			if len(m) > 0 {
				if idx%shards == shard {
					emit(m, "enum")
				}
				idx++
			}
			return
		}
		rec3(i+1, m)
		for _, o := range outs {
			m[positions[i]] = o
			rec3(i+1, m)
			delete(m, positions[i])
		}
	}
	rec3(0, map[int]int{})
	// random full-size and sparse maps: non-monotonic, constant, plateaus, single entry
	r := rand.New(rand.NewSource(seed*7919 + int64(shard)))
	for i := 0; i < nrand; i++ {
		m := map[int]int{}
		switch r.Intn(5) {
		case 0: // full size, arbitrary outputs
			for k := 0; k <= 255; k++ {
				m[k] = r.Intn(256)
			}
		case 1: // full size with plateaus
			v := r.Intn(256)
			for k := 0; k <= 255; k++ {
				if r.Intn(4) == 0 {
					v = r.Intn(256)
				}
				m[k] = v
			}
		case 2: // constant
			v := r.Intn(256)
			for k := 0; k <= 255; k += 1 + r.Intn(9) {
				m[k] = v
			}
		case 3: // single entry
			m[r.Intn(256)] = r.Intn(256)
		default: // sparse random
			n := 2 + r.Intn(30)
			for j := 0; j < n; j++ {
				m[r.Intn(256)] = r.Intn(256)
			}
		}
		emit(m, "random")
	}
}

// TestDriveC13: limits derived from measured PWM->RPM data by the real hwmon fan object.
func TestDriveC13(t *testing.T) {
	out := os.Getenv("VERIF_OUT")
	if out == "" {
		t.Skip("VERIF_OUT not set")
	}
	seed := int64(envInt("VERIF_SEED", 1))
	nrand := envInt("VERIF_N", 200)
	shard, shards := envInt("VERIF_SHARD", 0), envInt("VERIF_SHARDS", 1)
	rec, err := NewRecorder(out)
	must(err)
	defer rec.Close()
	r := rand.New(rand.NewSource(seed*104729 + int64(shard)))
	// rpm values are logged in tenths (fractional readings >= 1 such as 200.9 are included)
	type data = map[int]int
	toFloat := func(d data) map[int]float64 {
		m := map[int]float64{}
		for k, v := range d {
			m[k] = float64(v) / 10
		}
		return m
	}
	snapshot := func(f fans.Fan) Ev {
		return Ev{"gmin": f.GetMinPwm(), "start": f.GetStartPwm(), "max": f.GetMaxPwm()}
	}
	run := func(cmin, cstart, cmax int, neverStop bool, d1 data, d2 data, second bool) {
		cfg := configuration.FanConfig{ID: uniq("c13fan"), NeverStop: neverStop, Curve: "x",
			HwMon: &configuration.HwMonFanConfig{Platform: "p", Index: 1}}
		if cmin >= 0 {
			cfg.MinPwm = ip(cmin)
		}
		if cstart >= 0 {
			cfg.StartPwm = ip(cstart)
		}
		if cmax >= 0 {
			cfg.MaxPwm = ip(cmax)
		}
		f, err := fans.NewFan(cfg)
		must(err)
		ev := Ev{"ev": "Limits", "cmin": cmin, "cstart": cstart, "cmax": cmax, "neverStop": neverStop,
			"d1": pairs(d1), "before": snapshot(f)}
		m1 := toFloat(d1)
		func() {
			defer func() {
				if p := recover(); p != nil {
					ev["panic1"] = true
				}
			}()
			e1 := f.AttachFanRpmCurveData(&m1)
			ev["err1"] = e1 != nil
		}()
		if _, ok := ev["panic1"]; !ok {
			ev["panic1"] = false
		} else {
			ev["err1"] = false
		}
		ev["after1"] = snapshot(f)
		ev["second"] = second
		if second {
			m2 := toFloat(d2)
			e2 := f.AttachFanRpmCurveData(&m2)
			ev["d2"] = pairs(d2)
			ev["err2"] = e2 != nil
			ev["after2"] = snapshot(f)
		} else {
			ev["d2"] = [][2]int{}
			ev["err2"] = false
			ev["after2"] = snapshot(f)
		}
		rec.Emit(ev)
	}
	keysU := []int{0, 1, 40, 128, 255}
	rpmU := []int{0, 10, 2009, 15000, 15005} // tenths: 0, 1.0, 200.9, 1500.0, 1500.5
	cfgVals := [][3]int{}
	for _, a := range []int{-1, 30} {
		for _, b := range []int{-1, 60} {
			for _, c := range []int{-1, 200} {
				cfgVals = append(cfgVals, [3]int{a, b, c})
			}
		}
	}
	idx := 0
	// exhaustive over the small universe: every data map (each key absent or one of 5 rpm values)
	var gen func(i int, d data)
	gen = func(i int, d data) {
		if i == len(keysU) {
			for _, cv := range cfgVals {
				for _, ns := range []bool{false, true} {
					if idx%shards == shard {
						cp := data{}
						for k, v := range d {
							cp[k] = v
						}
						run(cv[0], cv[1], cv[2], ns, cp, nil, false)
					}
					idx++
				}
			}
			return
		}
		gen(i+1, d)
		for _, v := range rpmU {
			d[keysU[i]] = v
			gen(i+1, d)
			delete(d, keysU[i])
		}
	}
	gen(0, data{})
	// random: full-size / sparse / non-monotonic / plateaus, with a second attachment of different data
	randData := func() data {
		d := data{}
		switch r.Intn(5) {
		case 0:
			n := r.Intn(4)
			for j := 0; j < n; j++ {
				d[r.Intn(256)] = []int{0, 0, 10 * r.Intn(3000)}[r.Intn(3)]
			}
		case 1: // realistic: zero below a start point, rising, plateau
			start, top := r.Intn(120), 120+r.Intn(136)
			for k := 0; k <= 255; k += 1 + r.Intn(5) {
				switch {
				case k < start:
					d[k] = 0
				case k >= top:
					d[k] = 10 * 3000
				default:
					d[k] = 10*(300+(k-start)*20) + r.Intn(10)
				}
			}
		case 2: // non-monotonic
			for k := 0; k <= 255; k += 1 + r.Intn(20) {
				d[k] = r.Intn(30000)
			}
		case 3: // all zero
			for k := 0; k <= 255; k += 1 + r.Intn(60) {
				d[k] = 0
			}
		default: // single point
			d[r.Intn(256)] = r.Intn(30000)
		}
		return d
	}
	for i := 0; i < nrand; i++ {
		cv := cfgVals[r.Intn(len(cfgVals))]
		if r.Intn(3) == 0 {
			cv = [3]int{[]int{-1, r.Intn(256)}[r.Intn(2)], []int{-1, r.Intn(255)}[r.Intn(2)], []int{-1, r.Intn(256)}[r.Intn(2)]}
		}
		run(cv[0], cv[1], cv[2], r.Intn(2) == 0, randData(), randData(), r.Intn(2) == 0)
	}
}
