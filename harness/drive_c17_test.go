//go:build verif

package verifharness

import (
	"bytes"
	"fmt"
	"math/rand"
	"os"
	"path/filepath"
	"regexp"
	"strconv"
	"strings"
	"testing"
	"time"

	"github.com/markusressel/fan2go/internal"
	"github.com/markusressel/fan2go/internal/configuration"
	"github.com/markusressel/fan2go/internal/fans"
	"github.com/markusressel/fan2go/internal/sensors"
	"github.com/prometheus/client_golang/prometheus"
)

// TestDriveC17: fake hwmon trees (1..4 chips, fans on channel subsets, temperature inputs on index
// subsets, permuted enumeration order) enumerated by the gosensors stand-in; one hwmon fan entry or
// one hwmon sensor entry per case goes through the real start-up (internal.InitializeObjects). The
// files of the tree hold values that identify the device (chip number, channel), so the device that
// is really read / written on first use is observed, not only the configured path.
func TestDriveC17(t *testing.T) {
	out := os.Getenv("VERIF_OUT")
	if out == "" {
		t.Skip("VERIF_OUT not set")
	}
	seed := int64(envInt("VERIF_SEED", 1))
	n := envInt("VERIF_N", 100)
	rec, err := NewRecorder(out)
	must(err)
	defer rec.Close()
	r := rand.New(rand.NewSource(seed))
	names := []string{"chipa", "chipb", "chipc", "chipd"}
	subsets := [][]int{{}, {1}, {2}, {1, 2}, {2, 4}, {1, 3, 4}, {1, 2, 3, 4}, {3}}
	for i := 0; i < n; i++ {
		dir := scratchDir("verif.c17.")
		root := filepath.Join(dir, "hwmon")
		nc := 1 + r.Intn(4)
		type chip struct {
			name  string
			fans  []int
			temps []int
			num   int
		}
		var chips []chip
		for c := 0; c < nc; c++ {
			ch := chip{name: names[c], fans: subsets[r.Intn(len(subsets))], temps: subsets[r.Intn(len(subsets))], num: c + 1}
			chips = append(chips, ch)
		}
		// enumeration order: a random permutation
		order := r.Perm(nc)
		var orderNames []string
		var tree []Ev
		for _, oi := range order {
			ch := chips[oi]
			d := filepath.Join(root, ch.name)
			must(os.MkdirAll(d, 0755))
			must(os.WriteFile(filepath.Join(d, "name"), []byte(ch.name+"\n"), 0644))
			for _, f := range ch.fans {
				writeInt(filepath.Join(d, fmt.Sprintf("fan%d_input", f)), 1000*ch.num+10*f+1) // rpm identifies chip and channel
			}
			for k := 1; k <= 4; k++ { // every chip has all four pwm controls
				writeInt(filepath.Join(d, fmt.Sprintf("pwm%d", k)), 100+10*ch.num+k)
				writeInt(filepath.Join(d, fmt.Sprintf("pwm%d_enable", k)), 2)
			}
			for _, tn := range ch.temps {
				writeInt(filepath.Join(d, fmt.Sprintf("temp%d_input", tn)), 1000*(10*ch.num+tn))
			}
			orderNames = append(orderNames, ch.name)
			fs, ts := ch.fans, ch.temps
			if fs == nil {
				fs = []int{}
			}
			if ts == nil {
				ts = []int{}
			}
			tree = append(tree, Ev{"name": ch.name, "num": ch.num, "fans": fs, "temps": ts})
		}
		must(os.WriteFile(filepath.Join(root, "order"), []byte(strings.Join(orderNames, "\n")+"\n"), 0644))
		os.Setenv("VERIF_HWMON_ROOT", root)
		// `fan2go detect` on this tree (a real process): the listing the user reads the index / channel from
		if i%envInt("VERIF_DETECT_EVERY", 5) == 0 {
			must(os.WriteFile(filepath.Join(dir, "fan2go.yaml"), []byte("dbPath: "+filepath.Join(dir, "d.db")+"\n"), 0644))
			var outb bytes.Buffer
			cmd := StartChild("cli", []string{"-c", filepath.Join(dir, "fan2go.yaml"), "--no-style", "--no-color", "detect"}, root, filepath.Join(dir, "cli.trace"), &outb)
			code, _, _ := waitExit(cmd, 30*time.Second)
			rec.Emit(Ev{"ev": "Detect", "tree": tree, "exit": code, "listing": parseDetect(outb.String())})
		}
		// selector: existing and non-existing devices
		platform := names[r.Intn(nc)]
		if r.Intn(8) == 0 {
			platform = "nochip"
		}
		prometheus.DefaultRegisterer = prometheus.NewRegistry()
		tempFile := filepath.Join(dir, "t")
		writeInt(tempFile, 50000)
		isFan := r.Intn(3) > 0
		ev := Ev{"ev": "Bind", "tree": tree, "isFan": isFan}
		var cc configuration.Configuration
		if isFan {
			sel := configuration.HwMonFanConfig{Platform: platform}
			if r.Intn(2) == 0 {
				sel.Index = 1 + r.Intn(4)
			} else {
				sel.RpmChannel = 1 + r.Intn(4)
			}
			if r.Intn(3) == 0 {
				sel.PwmChannel = 1 + r.Intn(4)
			}
			ev["sel"] = Ev{"platform": platform, "index": sel.Index, "rpmChannel": sel.RpmChannel, "pwmChannel": sel.PwmChannel}
			cc = configuration.Configuration{
				Sensors: []configuration.SensorConfig{{ID: "c17s", File: &configuration.FileSensorConfig{Path: tempFile}}},
				Curves:  []configuration.CurveConfig{{ID: "c17c", Linear: &configuration.LinearCurveConfig{Sensor: "c17s", Min: 40, Max: 80}}},
				Fans:    []configuration.FanConfig{{ID: "c17fan", Curve: "c17c", HwMon: &sel}},
			}
			if r.Intn(3) == 0 {
				// a fan hub: another entry selects the SAME fan (same selector) but names a pwm channel of its own, before
				// or after the entry under test - entries are bound independently of each other
				twin := sel
				twin.PwmChannel = 1 + (sel.PwmChannel+r.Intn(3))%4
				te := configuration.FanConfig{ID: "c17twin", Curve: "c17c", HwMon: &twin}
				if r.Intn(2) == 0 {
					cc.Fans = append([]configuration.FanConfig{te}, cc.Fans...)
				} else {
					cc.Fans = append(cc.Fans, te)
				}
			} else if r.Intn(2) == 0 {
				for _, ch := range chips {
					if len(ch.fans) > 0 {
						good := configuration.HwMonFanConfig{Platform: ch.name, Index: 1}
						if r.Intn(2) == 0 {
							cc.Fans = append([]configuration.FanConfig{{ID: "c17good", Curve: "c17c", HwMon: &good}}, cc.Fans...)
						} else { // ... or after it: a later entry that binds must not make up for this one
							cc.Fans = append(cc.Fans, configuration.FanConfig{ID: "c17good", Curve: "c17c", HwMon: &good})
						}
						break
					}
				}
			}
		} else {
			sel := configuration.HwMonSensorConfig{Platform: platform, Index: 1 + r.Intn(4)}
			ev["sel"] = Ev{"platform": platform, "index": sel.Index, "rpmChannel": 0, "pwmChannel": 0}
			cc = configuration.Configuration{
				Sensors: []configuration.SensorConfig{{ID: "c17sensor", HwMon: &sel}},
				Curves:  []configuration.CurveConfig{{ID: "c17c", Linear: &configuration.LinearCurveConfig{Sensor: "c17sensor", Min: 40, Max: 80}}},
			}
			// other, valid entries before the one under test (an entry must be judged on its own)
			if r.Intn(2) == 0 {
				for _, ch := range chips {
					if len(ch.temps) > 0 {
						good := configuration.HwMonSensorConfig{Platform: ch.name, Index: 1}
						if r.Intn(2) == 0 {
							cc.Sensors = append([]configuration.SensorConfig{{ID: "c17good", HwMon: &good}}, cc.Sensors...)
						} else {
							cc.Sensors = append(cc.Sensors, configuration.SensorConfig{ID: "c17good", HwMon: &good})
						}
						break
					}
				}
			}
		}
		configuration.CurrentConfig = cc
		res := Ev{"err": false, "panic": false, "named": false, "chip": 0, "rpm": 0, "pwm": 0, "enable": 0, "temp": 0, "wrote": 0, "pwmchip": 0, "msg": ""}
		func() {
			defer func() {
				if p := recover(); p != nil {
					res["panic"] = true
					res["msg"] = fmt.Sprint(p)
				}
			}()
			fanMap, err := internal.InitializeObjects()
			if err != nil {
				res["err"] = true
				res["msg"] = fmtErr(err)
				// (a twin entry has the same selector: when the device does not exist it fails for the same reason, and an
				// error that names the twin is as clean as one that names the entry under test)
				res["named"] = strings.Contains(err.Error(), "c17fan") || strings.Contains(err.Error(), "c17sensor") || strings.Contains(err.Error(), "c17twin")
				return
			}
			if isFan {
				for fc, f := range fanMap {
					if fc.ID != "c17fan" {
						continue
					}
					hf := f.(*fans.HwMonFan)
					rpm, e1 := f.GetRpm() // really read: 1000*chip + 10*channel + 1
					pwm, e2 := f.GetPwm() // really read: 100 + 10*chip + channel
					if e1 != nil || e2 != nil {
						res["err"] = true
						res["msg"] = fmt.Sprint(e1, e2)
						return
					}
					res["chip"] = rpm / 1000
					res["rpm"] = (rpm % 1000) / 10
					res["pwm"] = pwm % 10
					res["pwmchip"] = (pwm - 100) / 10
					// really written: which pwm file changes?
					must(f.SetPwm(77))
					wrote := 0
					for _, ch := range chips {
						for k := 1; k <= 4; k++ {
							if readIntFile(filepath.Join(root, ch.name, fmt.Sprintf("pwm%d", k))) == 77 {
								wrote = 10*ch.num + k
							}
						}
					}
					res["wrote"] = wrote
					// enable control: set manual and see which file changes
					must(f.SetPwmEnabled(fans.ControlModePWM))
					en := 0
					for _, ch := range chips {
						for k := 1; k <= 4; k++ {
							if readIntFile(filepath.Join(root, ch.name, fmt.Sprintf("pwm%d_enable", k))) == 1 {
								en = 10*ch.num + k
							}
						}
					}
					res["enable"] = en
					_ = hf
				}
			} else {
				s, _ := sensors.GetSensor("c17sensor")
				v, e := s.GetValue()
				if e != nil {
					res["err"] = true
					res["msg"] = fmtErr(e)
					return
				}
				code := int(v) / 1000 // 10*chip + temp number
				res["chip"] = code / 10
				res["temp"] = code % 10
			}
		}()
		ev["res"] = res
		rec.Emit(ev)
		os.RemoveAll(dir)
	}
}

// parseDetect: the chips `fan2go detect` lists, with their fan rows (index, channel, rpm, pwm) and sensor rows
// (index, temperature number taken from the file name, value); -1 stands for anything that is not a number
func parseDetect(out string) []Ev {
	var chips []Ev
	var cur Ev
	section := ""
	num := func(s string) int {
		v, err := strconv.Atoi(s)
		if err != nil {
			return -1
		}
		return v
	}
	tempRe := regexp.MustCompile(`\(temp(\d+)_input\)`)
	for _, ln := range strings.Split(out, "\n") {
		f := strings.Fields(ln)
		switch {
		case len(f) >= 2 && f[0] == ">":
			name := f[1]
			if k := strings.Index(name, "-"); k > 0 {
				name = name[:k]
			}
			cur = Ev{"name": name, "fans": [][]int{}, "temps": [][]int{}}
			chips = append(chips, cur)
			section = ""
		case len(f) > 0 && f[0] == "Fans":
			section = "fans"
		case len(f) > 0 && f[0] == "Sensors":
			section = "temps"
		case cur != nil && section == "fans" && len(f) >= 6:
			cur["fans"] = append(cur["fans"].([][]int), []int{num(f[0]), num(f[1]), num(f[3]), num(f[4])})
		case cur != nil && section == "temps" && len(f) >= 4:
			tn := -1
			if m := tempRe.FindStringSubmatch(ln); m != nil {
				tn = num(m[1])
			}
			cur["temps"] = append(cur["temps"].([][]int), []int{num(f[0]), tn, num(f[len(f)-1])})
		}
	}
	if chips == nil {
		chips = []Ev{}
	}
	return chips
}
