//go:build verif

package verifharness

import (
	"fmt"
	"math/rand"
	"os"
	"testing"
	"testing/synctest"
	"time"
)

// ---------------------------------------------------------------------------------------------
// Random histories for the controller family (C01, C02, C05, C10 cycle level).
// The driver is the scheduler: each step is one action of Controller.tla executed atomically on
// the real controller; virtual time (testing/synctest) passes between the steps.
// ---------------------------------------------------------------------------------------------

var cornerLimits = [][2]int{{0, 255}, {0, 0}, {255, 255}, {30, 200}, {100, 101}, {0, 128}, {250, 255}, {200, 255}, {1, 2}, {77, 78}}

func randLimits(r *rand.Rand) (int, int) {
	if r.Intn(3) == 0 {
		l := cornerLimits[r.Intn(len(cornerLimits))]
		return l[0], l[1]
	}
	a, b := r.Intn(256), r.Intn(256)
	if a > b {
		a, b = b, a
	}
	return a, b
}

func identityMap() map[int]int {
	m := map[int]int{}
	for i := 0; i <= 255; i++ {
		m[i] = i
	}
	return m
}

func quantMap(q int) map[int]int {
	m := map[int]int{}
	for i := 0; i <= 255; i++ {
		m[i] = (i / q) * q
	}
	return m
}

// randMap returns a pwm map with outputs in 0..255 under which the fan reads back what was
// written (outputs are written verbatim into the register), plus an optional register quantiser.
func randMap(r *rand.Rand) (m map[int]int, quant func(int) int, label string) {
	switch r.Intn(6) {
	case 0, 1:
		return identityMap(), nil, "identity"
	case 2:
		return map[int]int{0: 0, 64: 128, 192: 255}, nil, "sparse"
	case 3:
		q := []int{2, 3, 8, 32, 51, 85}[r.Intn(6)]
		return quantMap(q), func(v int) int { return (v / q) * q }, "quant"
	case 4:
		// random sparse user map, arbitrary (also non-monotonic) outputs
		n := 1 + r.Intn(12)
		m = map[int]int{}
		for i := 0; i < n; i++ {
			m[r.Intn(256)] = r.Intn(256)
		}
		return m, nil, "randsparse"
	default:
		// full-size non-decreasing map with plateaus
		m = map[int]int{}
		v := 0
		for i := 0; i <= 255; i++ {
			if r.Intn(3) == 0 {
				v += r.Intn(4)
			}
			if v > 255 {
				v = 255
			}
			m[i] = v
		}
		return m, nil, "plateaus"
	}
}

func randAlg(r *rand.Rand) AlgSpec {
	switch r.Intn(5) {
	case 0:
		return AlgSpec{T: "direct"}
	case 1:
		return AlgSpec{T: "rate", M: []int{1, 2, 3, 5, 10, 50, 255}[r.Intn(7)]}
	case 2:
		return DefaultPid([]int{50, 100, 200, 500, 1000, 2000}[r.Intn(6)])
	case 3:
		d := DefaultPid(0)
		d.Default = true
		return d
	default:
		g := func() float64 {
			switch r.Intn(4) {
			case 0:
				return 0
			case 1:
				return r.Float64()
			case 2:
				return -r.Float64() * 5
			default:
				return r.Float64() * 1e6
			}
		}
		return AlgSpec{T: "pid", P: g(), I: g(), D: g()}
	}
}

func randCurveValue(r *rand.Rand) int {
	switch r.Intn(10) {
	case 0:
		return []int{-300, -1, 256, 1000, 1 << 30, -(1 << 30)}[r.Intn(6)]
	case 1:
		return []int{0, 1, 254, 255}[r.Intn(4)]
	default:
		return r.Intn(256)
	}
}

func randFanSpec(r *rand.Rand, profile string) (FanSpec, func(int) int) {
	spec := FanSpec{}
	switch r.Intn(8) {
	case 0:
		spec.Kind = "cmd"
	case 1, 2:
		spec.Kind = "file"
	default:
		spec.Kind = "hwmon"
	}
	if os.Getenv("VERIF_NOCMD") != "" && spec.Kind == "cmd" {
		spec.Kind = "file"
	}
	spec.NeverStop = r.Intn(3) > 0
	spec.HasRpm = r.Intn(4) > 0
	spec.HasMode = spec.Kind == "hwmon" && r.Intn(5) > 0
	// now and then a driver that ignores writes to pwm_enable (it keeps reporting the mode it had): regulation goes on all the
	// same - the PWM value is what counts
	spec.ModeStuck = spec.HasMode && r.Intn(6) == 0
	if profile == "C02" || profile == "C10" {
		spec.NeverStop = true
		spec.HasRpm = true
	}
	mn, mx := randLimits(r)
	if spec.Kind == "hwmon" {
		// each limit either configured or measured
		if r.Intn(2) == 0 {
			spec.CfgMin = ip(mn)
		} else {
			spec.MeasMin = ip(mn)
		}
		if r.Intn(2) == 0 {
			spec.CfgMax = ip(mx)
		} else {
			spec.MeasMax = ip(mx)
		}
	}
	m, q, _ := randMap(r)
	spec.Map = m
	spec.N = []int{1, 2, 3, 10, 50}[r.Intn(5)]
	spec.Alg = randAlg(r)
	if spec.Kind == "cmd" {
		q = nil
		if len(spec.Map) == 256 && spec.Map[3] != 3 {
			spec.Map = identityMap()
		}
	}
	return spec, q
}

func runCtlHistory(t *testing.T, rec *Recorder, r *rand.Rand, profile string, steps int) {
	spec, quant := randFanSpec(r, profile)
	pwm0 := r.Intn(256)
	mode0 := []int{0, 1, 2, 3, 5}[r.Intn(5)]
	avg0 := []float64{0, 0.4, 1, 20, 1500}[r.Intn(5)]
	if spec.Kind != "hwmon" {
		avg0 = float64(int(avg0))
	}
	rec.NextTrace()
	c := NewCtl(rec, spec, pwm0, mode0, avg0)
	defer c.Close()
	if quant != nil {
		c.Env.Quant["pwm"] = quant
		c.Env.Set("pwm", quant(pwm0))
	}
	c.EmitInit(Ev{"profile": profile})
	dt := spec.Alg.Dt
	cv := 0
	hold := 0
	for i := 0; i < steps; i++ {
		// choose the next action
		x := r.Intn(100)
		pPoke, pRpm := 5, 25
		switch profile {
		case "C05":
			pPoke, pRpm = 30, 10
		case "C02", "C10":
			pPoke, pRpm = 2, 45
		}
		switch {
		case x < pPoke:
			mode := -1
			if r.Intn(2) == 0 {
				mode = []int{0, 2, 3}[r.Intn(3)]
			}
			p := -1
			if r.Intn(4) > 0 {
				p = r.Intn(256)
				// values that matter for the controller's comparisons: keys and outputs of the PWM map, the current request
				switch r.Intn(4) {
				case 0:
					if ps := pairs(spec.Map); len(ps) > 0 {
						p = ps[r.Intn(len(ps))][0]
					}
				case 1:
					if ps := pairs(spec.Map); len(ps) > 0 {
						p = ps[r.Intn(len(ps))][1]
					}
				case 2:
					if st := c.C.VerifState(); st.LastSetPwm >= 0 {
						p = st.LastSetPwm
						if len(st.DistinctPwmValues) > 0 {
							p = st.DistinctPwmValues[r.Intn(len(st.DistinctPwmValues))]
						}
					}
				}
				if quant != nil {
					p = quant(p)
				}
			}
			c.Poke(mode, p)
		case x < pPoke+pRpm && spec.HasRpm:
			rpm := 0
			if (profile == "C02" || profile == "C10") && r.Intn(4) == 0 || (profile != "C02" && profile != "C10") && r.Intn(2) == 0 {
				rpm = 1 + r.Intn(3000)
			}
			c.Rpm(rpm, r.Intn(20) > 0)
		default:
			if hold > 0 {
				hold--
			} else {
				cv = randCurveValue(r)
				if spec.Alg.T == "pid" && spec.Alg.Dt > 0 && (cv > 1000 || cv < -1000) {
					cv = cv % 1000 // exact PID model: keep the arithmetic within 32 bits
				}
				if r.Intn(3) == 0 {
					hold = 1 + r.Intn(6)
				}
			}
			d := dt
			if d == 0 {
				d = []int{0, 1, 50, 200, 1000, 7}[r.Intn(6)]
			}
			time.Sleep(time.Duration(d) * time.Millisecond)
			var err error
			if (profile == "C01" || profile == "C05") && r.Intn(80) == 0 {
				// (not in the stall profiles, whose formulas take every failed cycle for a reported stall)
				// the curve cannot be evaluated (its sensor is unreadable): the cycle fails, nothing is written, regulation ends
				c.Curve.Err = fmt.Errorf("sensor unreadable")
			}
			if profile == "C05" && r.Intn(12) == 0 {
				_, err = c.CycleRaced(cv, d)
			} else if r.Intn(60) == 0 {
				_, err = c.CycleWriteFault(cv, d)
			} else {
				_, err = c.Cycle(cv, d)
			}
			if err != nil {
				return // control error: regulation of this fan ends
			}
		}
	}
}

// runStallHistory: a never-stop fan behind a plant that turns only above a threshold (or never),
// a constant curve value, RPM polls and control cycles interleaved like the two tickers do.
func runStallHistory(t *testing.T, rec *Recorder, r *rand.Rand, steps int) {
	spec := FanSpec{NeverStop: true, HasRpm: true}
	switch r.Intn(6) {
	case 0:
		spec.Kind = "cmd"
	case 1, 2:
		spec.Kind = "file"
	default:
		spec.Kind = "hwmon"
	}
	if os.Getenv("VERIF_NOCMD") != "" && spec.Kind == "cmd" {
		spec.Kind = "file"
	}
	spec.HasMode = spec.Kind == "hwmon" && r.Intn(4) > 0
	spec.ModeStuck = spec.HasMode && r.Intn(5) == 0
	mn, mx := randLimits(r)
	if mx-mn > 40 && r.Intn(3) > 0 {
		mn = mx - r.Intn(40) // keep most ladders short enough to reach the maximum
	}
	if spec.Kind == "hwmon" {
		if r.Intn(2) == 0 {
			spec.CfgMin = ip(mn)
		} else {
			spec.MeasMin = ip(mn)
		}
		if r.Intn(2) == 0 {
			spec.CfgMax = ip(mx)
		} else {
			spec.MeasMax = ip(mx)
		}
	} else {
		mn, mx = 0, 255
	}
	spec.Map = identityMap()
	spec.N = []int{1, 2, 3, 5, 10, 20, 50}[r.Intn(7)]
	switch r.Intn(4) {
	case 0:
		spec.Alg = AlgSpec{T: "rate", M: []int{1, 5, 50}[r.Intn(3)]}
	case 1:
		spec.Alg = DefaultPid(200)
	default:
		spec.Alg = AlgSpec{T: "direct"}
	}
	// plant: turns iff pwm > theta; theta >= max means it never turns
	theta := mn - 1 + r.Intn(mx-mn+3)
	if r.Intn(4) == 0 {
		theta = 1000
	}
	avg0 := []float64{0, 0, 1, 20, 800, 3000, 20000}[r.Intn(7)]
	cv := []int{0, 0, 3, 100, 250}[r.Intn(5)]
	if spec.Kind != "hwmon" {
		cv = []int{240, 250, 253}[r.Intn(3)]
		if theta < 1000 {
			theta = 235 + r.Intn(25)
		}
	}
	rec.NextTrace()
	c := NewCtl(rec, spec, r.Intn(256), 2, avg0)
	defer c.Close()
	c.EmitInit(Ev{"profile": "C10", "theta": theta})
	cyclesPerPoll := 1 + r.Intn(5)
	// the PWM read-back starts failing during the RPM polls of the stall (hwmon/file: interposer fault)
	pwmFlaky := spec.Kind != "cmd" && r.Intn(4) == 0
	for i := 0; i < steps; i++ {
		rpm := 0
		if c.reg("pwm") > theta {
			rpm = 600 + 10*c.reg("pwm")
		}
		c.RpmX(rpm, true, pwmFlaky && i > 3)
		for k := 0; k < cyclesPerPoll; k++ {
			time.Sleep(200 * time.Millisecond)
			if _, err := c.Cycle(cv, 200); err != nil {
				return
			}
		}
	}
}

func TestDriveController(t *testing.T) {
	out := os.Getenv("VERIF_OUT")
	if out == "" {
		t.Skip("VERIF_OUT not set")
	}
	seed := int64(envInt("VERIF_SEED", 1))
	n := envInt("VERIF_N", 50)
	steps := envInt("VERIF_LEN", 40)
	profile := envStr("VERIF_PROFILE", "C01")
	rec, err := NewRecorder(out)
	must(err)
	defer rec.Close()
	r := rand.New(rand.NewSource(seed))
	for i := 0; i < n; i++ {
		hseed := r.Int63()
		synctest.Test(t, func(t *testing.T) {
			if profile == "C10" && i%4 != 3 {
				runStallHistory(t, rec, rand.New(rand.NewSource(hseed)), steps)
			} else {
				runCtlHistory(t, rec, rand.New(rand.NewSource(hseed)), profile, steps)
			}
		})
	}
}
