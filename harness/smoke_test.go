package verifharness

import (
	"testing"

	_ "github.com/markusressel/fan2go/cmd"
	_ "github.com/markusressel/fan2go/internal"
	_ "github.com/markusressel/fan2go/internal/controller"
)

func TestSmoke(t *testing.T) {}
