//go:build verif

package verifharness

import (
	"bufio"
	"bytes"
	"fmt"
	"os"
	"path/filepath"
	"strings"
	"sync"
	"syscall"
	"testing"
	"time"
)

// ---------------------------------------------------------------------------------------------
// C11 at process level: what the user does. A generated configuration is validated with the real
// command `fan2go -c <file> config validate` (child process, exit status), then the real daemon
// is started on it (child process, fake hwmon tree, real time). "Can be run" = the daemon gets as
// far as regulating: every configured fan's controller has started ("Captured" hook) and the
// process is still alive shortly afterwards. Then SIGTERM.
// ---------------------------------------------------------------------------------------------

func c11Env(dir string) (root string) {
	must(os.Chmod(dir, 0755))
	writeInt(filepath.Join(dir, "temp"), 55000)
	writeInt(filepath.Join(dir, "rpm"), 1000)
	writeScript(filepath.Join(dir, "sensor.sh"), "echo 55000\n")
	writeScript(filepath.Join(dir, "get.sh"), "echo 100\n")
	writeScript(filepath.Join(dir, "set.sh"), "exit 0\n")
	root = filepath.Join(dir, "hwmon")
	chip := filepath.Join(root, "chipa")
	must(os.MkdirAll(chip, 0755))
	must(os.WriteFile(filepath.Join(chip, "name"), []byte("chipa\n"), 0644))
	for k := 1; k <= 2; k++ {
		writeInt(filepath.Join(chip, fmt.Sprintf("fan%d_input", k)), 1200)
		writeInt(filepath.Join(chip, fmt.Sprintf("pwm%d", k)), 100)
		writeInt(filepath.Join(chip, fmt.Sprintf("pwm%d_enable", k)), 2)
		writeInt(filepath.Join(chip, fmt.Sprintf("temp%d_input", k)), 50000)
	}
	return root
}

func TestDriveC11Proc(t *testing.T) {
	out := os.Getenv("VERIF_OUT")
	if out == "" {
		t.Skip("VERIF_OUT not set")
	}
	seed := int64(envInt("VERIF_SEED", 1))
	n := envInt("VERIF_N", 24)
	f, err := os.Create(out)
	must(err)
	rec := &Recorder{f: f, w: bufio.NewWriterSize(f, 1<<16)}
	defer rec.Close()
	scs := c11Scenarios(seed*7919+13, n)
	type res struct{ cfg, proc Ev }
	results := make([]res, n)
	var wg sync.WaitGroup
	sem := make(chan struct{}, envInt("VERIF_PAR", 6))
	for idx := range scs {
		wg.Add(1)
		sem <- struct{}{}
		go func(idx int) {
			defer wg.Done()
			defer func() { <-sem }()
			c := scs[idx]
			dir := scratchDir("verif.c11p.")
			defer os.RemoveAll(dir)
			root := c11Env(dir)
			for _, fn := range c.Fans {
				writeInt(filepath.Join(dir, "pwm_"+fn.ID), 100)
			}
			cfgPath := filepath.Join(dir, "fan2go.yaml")
			must(os.WriteFile(cfgPath, []byte(renderYaml(c, dir)), 0644))
			results[idx].cfg = Ev{"ev": "Cfg", "idx": idx, "sensors": c.Sensors, "curves": c.Curves, "fans": c.Fans, "documented": c.Documented}
			// 1. the validation command
			var vout bytes.Buffer
			vcmd := StartChild("cli", []string{"-c", cfgPath, "--no-style", "--no-color", "config", "validate"}, root, filepath.Join(dir, "cli.trace"), &vout)
			vcode, _, vto := waitExit(vcmd, 60*time.Second)
			if vto {
				vcode = -9
			}
			// 2. the daemon
			tracePath := filepath.Join(dir, "child.ndjson")
			var dout bytes.Buffer
			dcmd := StartChild("daemon", []string{"-c", cfgPath, "--no-style", "--no-color"}, root, tracePath, &dout)
			exited := make(chan struct{})
			var code int
			go func() {
				code, _, _ = waitExit(dcmd, 120*time.Second)
				close(exited)
			}()
			want := map[string]bool{}
			for _, fn := range c.Fans {
				want[fn.ID] = true
			}
			captured := func() int {
				got := map[string]bool{}
				for _, e := range readChildTrace(tracePath) {
					if e["ev"] == "Captured" {
						if id, _ := e["fan"].(string); want[id] {
							got[id] = true
						}
					}
				}
				return len(got)
			}
			state := "stuck"
			t0 := time.Now()
		wait:
			for time.Since(t0) < 40*time.Second {
				select {
				case <-exited:
					state = "exited"
					break wait
				case <-time.After(50 * time.Millisecond):
				}
				if len(want) > 0 && captured() == len(want) {
					// regulating: still alive a moment later?
					select {
					case <-exited:
						state = "exited"
					case <-time.After(400 * time.Millisecond):
						state = "running"
					}
					break wait
				}
			}
			ncap := captured()
			if state != "exited" {
				_ = syscall.Kill(dcmd.Process.Pid, syscall.SIGTERM)
				select {
				case <-exited:
				case <-time.After(3 * time.Second):
					// (a fan in its initialization sequence is not interrupted by the signal - not this property's concern)
					_ = syscall.Kill(-dcmd.Process.Pid, syscall.SIGKILL)
					<-exited
					code = -9
				}
			}
			o := dout.String()
			if state == "exited" {
				switch {
				case strings.Contains(o, "fan2go/internal/ui.Fatal("):
					state = "fatal" // the loader's way of declining: ui.Fatal (pterm's fatal printer panics)
				case strings.Contains(o, "panic:") || strings.Contains(o, "fatal error:") || strings.Contains(o, "goroutine 1 ["):
					state = "panic"
				case ncap == 0 && code == 0:
					state = "refused" // the daemon declined to start and said so
				}
			}
			results[idx].proc = Ev{"ev": "Proc", "idx": idx, "cli": vcode, "cliOut": tailStr(vout.String(), 400), "daemon": state, "exit": code,
				"nfans": len(want), "captured": ncap, "output": tailStr(firstLines(o, 40), 1500)}
		}(idx)
	}
	wg.Wait()
	for _, r := range results {
		rec.Emit(r.cfg)
		rec.Emit(r.proc)
	}
}
