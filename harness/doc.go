// Package verifharness drives the real fan2go code for the TLA+-based verification in /verif.
package verifharness
