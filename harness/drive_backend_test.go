//go:build verif

package verifharness

import (
	"fmt"
	"math/rand"
	"os"
	"path/filepath"
	"testing"
	"testing/synctest"
	"time"

	"github.com/markusressel/fan2go/internal"
	"github.com/markusressel/fan2go/internal/configuration"
	"github.com/markusressel/fan2go/internal/controller"
	"github.com/markusressel/fan2go/internal/curves"
	"github.com/markusressel/fan2go/internal/persistence"
	"github.com/markusressel/fan2go/internal/sensors"
	"github.com/prometheus/client_golang/prometheus"
)

// TestDriveBackend: growth beyond the listed properties - the start-up code of internal/backend.go:
// which control algorithm each spelling of the fan options yields, and how sensors are seeded.
func TestDriveBackend(t *testing.T) {
	out := os.Getenv("VERIF_OUT")
	if out == "" {
		t.Skip("VERIF_OUT not set")
	}
	seed := int64(envInt("VERIF_SEED", 1))
	rec, err := NewRecorder(out)
	must(err)
	defer rec.Close()
	r := rand.New(rand.NewSource(seed))
	dir := scratchDir("verif.backend.")
	defer os.RemoveAll(dir)
	tempFile := filepath.Join(dir, "temp")
	pwmFile := filepath.Join(dir, "pwm")
	writeInt(pwmFile, 100)
	for _, loop := range []string{"none", "pid"} {
		for _, alg := range []string{"none", "direct", "directLimit", "pid", "empty"} {
			limit := 1 + r.Intn(200)
			value := 20000 + r.Intn(60000)
			readOk := r.Intn(3) > 0
			if readOk {
				writeInt(tempFile, value)
			} else {
				os.Remove(tempFile)
			}
			fc := configuration.FanConfig{ID: "bf", Curve: "bc", File: &configuration.FileFanConfig{Path: pwmFile}}
			if loop == "pid" {
				fc.ControlLoop = &configuration.ControlLoopConfig{P: 0.03, I: 0.002, D: 0.0005} //nolint
			}
			switch alg {
			case "direct":
				fc.ControlAlgorithm = &configuration.ControlAlgorithmConfig{Direct: &configuration.DirectControlAlgorithmConfig{}}
			case "directLimit":
				fc.ControlAlgorithm = &configuration.ControlAlgorithmConfig{Direct: &configuration.DirectControlAlgorithmConfig{MaxPwmChangePerCycle: &limit}}
			case "pid":
				fc.ControlAlgorithm = &configuration.ControlAlgorithmConfig{Pid: &configuration.PidControlAlgorithmConfig{P: 0.3, I: 0.02, D: 0.005}}
			case "empty":
				fc.ControlAlgorithm = &configuration.ControlAlgorithmConfig{}
			}
			configuration.CurrentConfig = configuration.Configuration{
				DbPath:  filepath.Join(dir, "db"),
				Sensors: []configuration.SensorConfig{{ID: "bs", File: &configuration.FileSensorConfig{Path: tempFile}}},
				Curves:  []configuration.CurveConfig{{ID: "bc", Linear: &configuration.LinearCurveConfig{Sensor: "bs", Min: 40, Max: 80}}},
				Fans:    []configuration.FanConfig{fc},
			}
			prometheus.DefaultRegisterer = prometheus.NewRegistry()
			fanMap, err := internal.InitializeObjects()
			must(err)
			s, _ := sensors.GetSensor("bs")
			rec.Emit(Ev{"ev": "Seed", "readOk": readOk, "value": value, "avgm": milli(s.GetMovingAvg())})
			ctls, err := internal.VerifInitializeFanControllers(persistence.NewPersistence(filepath.Join(dir, "db")), fanMap)
			must(err)
			for _, c := range ctls {
				lp := c.(*controller.DefaultFanController).VerifControlLoop()
				class, probe := "nil", -1
				if lp != nil {
					probe = lp.Cycle(255, 0)
					switch {
					case probe == 255 && alg != "directLimit":
						class = "direct"
					case probe == 0:
						class = "pid"
					default:
						class = "rate"
					}
					if alg == "directLimit" && probe == limit {
						class = "rate"
					}
				}
				rec.Emit(Ev{"ev": "Alg", "loop": loop, "alg": alg, "limit": limit, "class": class, "probe": probe})
			}
		}
	}
}

// TestDriveC04Multi: C04 for a daemon with SEVERAL fans, each with its own state: the controllers are the ones that
// initializeFanControllers builds for fan entries that leave the algorithm to the default (PID) or name one. Fan A's
// curve value is constant, the other fans' curves jump around; lock step under the fake clock (ticks of 200 ms).
// After K(alg) cycles fan A's request must have settled at the value of the direct algorithm and stay there.
func TestDriveC04Multi(t *testing.T) {
	out := os.Getenv("VERIF_OUT")
	if out == "" {
		t.Skip("VERIF_OUT not set")
	}
	seed := int64(envInt("VERIF_SEED", 1))
	n := envInt("VERIF_N", 3)
	rec, err := NewRecorder(out)
	must(err)
	defer rec.Close()
	r := rand.New(rand.NewSource(seed))
	for i := 0; i < n; i++ {
		sseed := r.Int63()
		idx := i
		synctest.Test(t, func(t *testing.T) { runC04Multi(rec, rand.New(rand.NewSource(sseed)), idx) })
	}
}

func runC04Multi(rec *Recorder, r *rand.Rand, idx int) {
	dir := scratchDir("verif.c04m.")
	defer os.RemoveAll(dir)
	pfx := uniq("m")
	nf := 2 + r.Intn(2)
	alg := []string{"default", "pid", "rate", "default"}[idx%4]
	var cfg configuration.Configuration
	cfg.DbPath = filepath.Join(dir, "db")
	cfg.TempRollingWindowSize = 1
	cfg.RpmRollingWindowSize = 10
	cfg.ControllerAdjustmentTickRate = 200 * time.Millisecond
	limit := 1 + r.Intn(20)
	temps := make([]string, nf)
	pwms := make([]string, nf)
	for k := 0; k < nf; k++ {
		temps[k] = filepath.Join(dir, fmt.Sprintf("temp%d", k))
		pwms[k] = filepath.Join(dir, fmt.Sprintf("pwm%d", k))
		writeInt(temps[k], 40000+r.Intn(40000))
		writeInt(pwms[k], r.Intn(256))
		sid, cid, fid := fmt.Sprintf("%ss%d", pfx, k), fmt.Sprintf("%sc%d", pfx, k), fmt.Sprintf("%sf%d", pfx, k)
		cfg.Sensors = append(cfg.Sensors, configuration.SensorConfig{ID: sid, File: &configuration.FileSensorConfig{Path: temps[k]}})
		cfg.Curves = append(cfg.Curves, configuration.CurveConfig{ID: cid, Linear: &configuration.LinearCurveConfig{Sensor: sid, Min: 40, Max: 80}})
		fc := configuration.FanConfig{ID: fid, Curve: cid, File: &configuration.FileFanConfig{Path: pwms[k]}}
		switch alg {
		case "pid":
			fc.ControlAlgorithm = &configuration.ControlAlgorithmConfig{Pid: &configuration.PidControlAlgorithmConfig{P: 0.3, I: 0.02, D: 0.005}}
		case "rate":
			// every fan has a limit of its own: the first fan (the one judged) the one drawn above, the others very
			// different ones (a limit is a property of one fan's loop, like its state)
			own := limit
			if k > 0 {
				own = []int{1, 2, 120, 255}[r.Intn(4)]
			}
			fc.ControlAlgorithm = &configuration.ControlAlgorithmConfig{Direct: &configuration.DirectControlAlgorithmConfig{MaxPwmChangePerCycle: &own}}
		}
		cfg.Fans = append(cfg.Fans, fc)
	}
	configuration.CurrentConfig = cfg
	prometheus.DefaultRegisterer = prometheus.NewRegistry()
	fanMap, err := internal.InitializeObjects()
	must(err)
	ctls, err := internal.VerifInitializeFanControllers(persistence.NewPersistence(cfg.DbPath), fanMap)
	must(err)
	byId := map[string]*controller.DefaultFanController{}
	for f, c := range ctls {
		dc := c.(*controller.DefaultFanController)
		id := map[int]int{}
		for v := 0; v <= 255; v++ {
			id[v] = v
		}
		dc.VerifSetPwmMap(id)
		byId[f.GetId()] = dc
	}
	fanA := byId[pfx+"f0"]
	sens := func(k int) sensors.Sensor { s, _ := sensors.GetSensor(fmt.Sprintf("%ss%d", pfx, k)); return s }
	curveA, _ := curves.GetSpeedCurve(pfx + "c0")
	k := 1260 // K(pid) for 200 ms ticks + margin (ControllerProps!KPidOf)
	if alg == "rate" {
		k = 255/limit + 6
	}
	var reqs []int
	cvA := -1
	for cyc := 0; cyc < k+40; cyc++ {
		time.Sleep(200 * time.Millisecond)
		for j := 1; j < nf; j++ {
			if r.Intn(7) == 0 {
				writeInt(temps[j], 30000+r.Intn(60000))
			}
		}
		for j := 0; j < nf; j++ {
			_ = internal.VerifUpdateSensor(sens(j))
		}
		order := r.Perm(nf)
		for _, j := range order {
			_ = byId[fmt.Sprintf("%sf%d", pfx, j)].UpdateFanSpeed()
		}
		if cyc >= k {
			reqs = append(reqs, fanA.VerifState().LastSetPwm)
		}
		cvA = curveA.CurrentValue()
	}
	rec.Emit(Ev{"ev": "MultiSettle", "alg": alg, "fans": nf, "c": cvA, "gmin": 0, "mx": 255, "k": k, "reqs": reqs})
}
