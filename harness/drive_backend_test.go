//go:build verif

package verifharness

import (
	"math/rand"
	"os"
	"path/filepath"
	"testing"

	"github.com/markusressel/fan2go/internal"
	"github.com/markusressel/fan2go/internal/configuration"
	"github.com/markusressel/fan2go/internal/controller"
	"github.com/markusressel/fan2go/internal/persistence"
	"github.com/markusressel/fan2go/internal/sensors"
	"github.com/prometheus/client_golang/prometheus"
)

// TestDriveBackend: growth beyond the listed properties - the start-up code of internal/backend.go:
// which control algorithm each spelling of the fan options yields, and how sensors are seeded.
func TestDriveBackend(t *testing.T) {
	out := os.Getenv("VERIF_OUT")
	if out == "" {
		t.Skip("VERIF_OUT not set")
	}
	seed := int64(envInt("VERIF_SEED", 1))
	rec, err := NewRecorder(out)
	must(err)
	defer rec.Close()
	r := rand.New(rand.NewSource(seed))
	dir := scratchDir("verif.backend.")
	defer os.RemoveAll(dir)
	tempFile := filepath.Join(dir, "temp")
	pwmFile := filepath.Join(dir, "pwm")
	writeInt(pwmFile, 100)
	for _, loop := range []string{"none", "pid"} {
		for _, alg := range []string{"none", "direct", "directLimit", "pid", "empty"} {
			limit := 1 + r.Intn(200)
			value := 20000 + r.Intn(60000)
			readOk := r.Intn(3) > 0
			if readOk {
				writeInt(tempFile, value)
			} else {
				os.Remove(tempFile)
			}
			fc := configuration.FanConfig{ID: "bf", Curve: "bc", File: &configuration.FileFanConfig{Path: pwmFile}}
			if loop == "pid" {
				fc.ControlLoop = &configuration.ControlLoopConfig{P: 0.03, I: 0.002, D: 0.0005} //nolint
			}
			switch alg {
			case "direct":
				fc.ControlAlgorithm = &configuration.ControlAlgorithmConfig{Direct: &configuration.DirectControlAlgorithmConfig{}}
			case "directLimit":
				fc.ControlAlgorithm = &configuration.ControlAlgorithmConfig{Direct: &configuration.DirectControlAlgorithmConfig{MaxPwmChangePerCycle: &limit}}
			case "pid":
				fc.ControlAlgorithm = &configuration.ControlAlgorithmConfig{Pid: &configuration.PidControlAlgorithmConfig{P: 0.3, I: 0.02, D: 0.005}}
			case "empty":
				fc.ControlAlgorithm = &configuration.ControlAlgorithmConfig{}
			}
			configuration.CurrentConfig = configuration.Configuration{
				DbPath:  filepath.Join(dir, "db"),
				Sensors: []configuration.SensorConfig{{ID: "bs", File: &configuration.FileSensorConfig{Path: tempFile}}},
				Curves:  []configuration.CurveConfig{{ID: "bc", Linear: &configuration.LinearCurveConfig{Sensor: "bs", Min: 40, Max: 80}}},
				Fans:    []configuration.FanConfig{fc},
			}
			prometheus.DefaultRegisterer = prometheus.NewRegistry()
			fanMap, err := internal.InitializeObjects()
			must(err)
			s, _ := sensors.GetSensor("bs")
			rec.Emit(Ev{"ev": "Seed", "readOk": readOk, "value": value, "avgm": milli(s.GetMovingAvg())})
			ctls, err := internal.VerifInitializeFanControllers(persistence.NewPersistence(filepath.Join(dir, "db")), fanMap)
			must(err)
			for _, c := range ctls {
				lp := c.(*controller.DefaultFanController).VerifControlLoop()
				class, probe := "nil", -1
				if lp != nil {
					probe = lp.Cycle(255, 0)
					switch {
					case probe == 255 && alg != "directLimit":
						class = "direct"
					case probe == 0:
						class = "pid"
					default:
						class = "rate"
					}
					if alg == "directLimit" && probe == limit {
						class = "rate"
					}
				}
				rec.Emit(Ev{"ev": "Alg", "loop": loop, "alg": alg, "limit": limit, "class": class, "probe": probe})
			}
		}
	}
}
