//go:build verif

package verifharness

import (
	"context"
	"math/rand"
	"os"
	"sync"
	"testing"
	"testing/synctest"
	"time"
)

func randRest(r *rand.Rand) [3]string {
	o := []string{"ok", "ok", "fail", "ign"}
	return [3]string{o[r.Intn(4)], o[r.Intn(4)], "ok"}
}

// randRunFan: a fan for the Run-mode drivers (analysis kept short: quantising register)
func randRunFan(r *rand.Rand, id string, allowCmd bool) RunFan {
	rf := RunFan{ID: id, CurveErrAt: -1}
	k := r.Intn(10)
	switch {
	case k < 6:
		rf.Spec.Kind = "hwmon"
	case k < 9 || !allowCmd:
		rf.Spec.Kind = "file"
	default:
		rf.Spec.Kind = "cmd"
	}
	rf.Spec.HasRpm = rf.Spec.Kind == "hwmon" || r.Intn(2) == 0
	rf.Spec.HasMode = rf.Spec.Kind == "hwmon" && r.Intn(5) > 0
	rf.Spec.NeverStop = r.Intn(2) == 0
	rf.Spec.N = 10
	rf.Spec.Alg = []AlgSpec{{T: "direct"}, {T: "rate", M: 10}, DefaultPid(200)}[r.Intn(3)]
	rf.Quant = []int{16, 32, 51, 64}[r.Intn(4)]
	rf.Theta = r.Intn(120)
	rf.Pwm0 = r.Intn(256)
	rf.Mode0 = []int{0, 1, 2, 2, 3, 5}[r.Intn(6)]
	rf.Rest = randRest(r)
	return rf
}

// TestDriveC03: the real controller.Run of 1..2 fans in a bubble; the context is cancelled at an
// instant chosen relative to the controller's hook events (every phase of the life cycle), the
// driver outcomes of the restore writes follow the schedule; control errors (stall at max PWM,
// failing curve) end regulation on their own.
func TestDriveC03(t *testing.T) {
	out := os.Getenv("VERIF_OUT")
	if out == "" {
		t.Skip("VERIF_OUT not set")
	}
	seed := int64(envInt("VERIF_SEED", 1))
	n := envInt("VERIF_N", 10)
	rec, err := NewRecorder(out)
	must(err)
	defer rec.Close()
	r := rand.New(rand.NewSource(seed))
	for i := 0; i < n; i++ {
		sseed := r.Int63()
		synctest.Test(t, func(t *testing.T) { runC03Scenario(rec, rand.New(rand.NewSource(sseed))) })
	}
}

func runC03Scenario(rec *Recorder, r *rand.Rand) {
	nf := 1 + r.Intn(2)
	cfg := RunCfg{Parallel: true, FanResponseDelay: r.Intn(2)}
	stall := r.Intn(5) == 0
	curveErr := r.Intn(8) == 0
	for k := 0; k < nf; k++ {
		rf := randRunFan(r, []string{"f1", "f2"}[k], os.Getenv("VERIF_NOCMD") == "")
		if k == 0 && stall {
			rf.Spec.Kind, rf.Spec.HasRpm, rf.Spec.NeverStop = "hwmon", true, true
			rf.Spec.HasMode = r.Intn(3) > 0
			rf.Spec.CfgMin, rf.Spec.CfgMax = ip(250+r.Intn(5)), ip(255)
			rf.Spec.Alg = AlgSpec{T: "direct"}
			rf.Quant = 1
			rf.Theta = 1000 // never turns
			rf.Spec.N = 1 + r.Intn(3)
		}
		if k == 0 && curveErr && !stall {
			rf.CurveErrAt = r.Intn(6)
		}
		cfg.Fans = append(cfg.Fans, rf)
	}
	cv := r.Intn(256)
	if stall {
		cv = 0
	}
	cfg.CurveValue = func(n int) int { return cv }
	// optionally a previous run stored the fans' characterisation (skip analysis)
	prestore := r.Intn(2) == 0
	dir := scratchDir("verif.c03.")
	defer os.RemoveAll(dir)
	cfg.Dir = dir
	if prestore {
		null, _ := NewRecorder(os.DevNull)
		pc := cfg
		pc.Fans = append([]RunFan{}, cfg.Fans...)
		for i := range pc.Fans {
			pc.Fans[i].Rest = [3]string{"ok", "ok", "ok"}
			pc.Fans[i].CurveErrAt = -1
			pc.Fans[i].Theta = 0
		}
		h0 := NewRunHarness(null, pc)
		ctx0, cancel0 := context.WithCancel(context.Background())
		var mu0 sync.Mutex
		started := 0
		h0.OnEvent = func(n int, fanId, event string) {
			if event == "LoopStarted" {
				mu0.Lock()
				started++
				all := started == len(pc.Fans)
				mu0.Unlock()
				if all {
					cancel0()
				}
			}
		}
		// long enough for the analysis of all fans (virtual time), then stop
		done0 := make(chan struct{})
		go func() {
			select {
			case <-time.After(40 * time.Minute):
			case <-done0:
			}
			cancel0()
		}()
		h0.Start(ctx0, nil)
		h0.Wait()
		close(done0)
		h0.Close(false)
		null.Close()
	}
	rec.NextTrace()
	h := NewRunHarness(rec, cfg)
	defer h.Close(false)
	ctx, cancel := context.WithCancel(context.Background())
	defer cancel()
	// cancel after the k-th hook event plus a small delay
	est := 60
	if !prestore {
		est = 120
	}
	cancelAt := 1 + r.Intn(est)
	if stall || curveErr {
		cancelAt = 40 + r.Intn(200)
	}
	delay := []time.Duration{0, time.Millisecond, 100 * time.Millisecond, 700 * time.Millisecond}[r.Intn(4)]
	var once sync.Once
	fire := func(why string) {
		once.Do(func() {
			go func() {
				time.Sleep(delay)
				rec.Emit(Ev{"ev": "Cancel", "why": why, "vt": h.vt()})
				cancel()
			}()
		})
	}
	h.OnEvent = func(n int, fanId, event string) {
		if n == cancelAt {
			fire("event")
		}
	}
	done := make(chan struct{})
	go func() {
		select {
		case <-time.After(45 * time.Minute):
			fire("timeout")
		case <-done:
		}
	}()
	h.Start(ctx, Ev{"scenario": Ev{"stall": stall, "curveErr": curveErr, "prestore": prestore, "cancelAt": cancelAt}})
	h.Wait()
	close(done)
	h.Final()
}
