//go:build verif

package verifharness

import (
	"context"
	bolt "go.etcd.io/bbolt"
	"math/rand"
	"os"
	"path/filepath"
	"sync"
	"testing"
	"testing/synctest"
	"time"
)

func randRest(r *rand.Rand) [3]string {
	o := []string{"ok", "ok", "fail", "ign"}
	return [3]string{o[r.Intn(4)], o[r.Intn(4)], "ok"}
}

// randRunFan: a fan for the Run-mode drivers (analysis kept short: quantising register)
func randRunFan(r *rand.Rand, id string, allowCmd bool) RunFan {
	rf := RunFan{ID: id, CurveErrAt: -1}
	k := r.Intn(10)
	switch {
	case k < 6:
		rf.Spec.Kind = "hwmon"
	case k < 9 || !allowCmd:
		rf.Spec.Kind = "file"
	default:
		rf.Spec.Kind = "cmd"
	}
	rf.Spec.HasRpm = rf.Spec.Kind == "hwmon" || r.Intn(2) == 0
	rf.Spec.HasMode = rf.Spec.Kind == "hwmon" && r.Intn(5) > 0
	rf.Spec.NeverStop = r.Intn(2) == 0
	rf.Spec.N = 10
	rf.Spec.Alg = []AlgSpec{{T: "direct"}, {T: "rate", M: 10}, DefaultPid(200)}[r.Intn(3)]
	rf.Quant = []int{16, 32, 51, 64}[r.Intn(4)]
	rf.Theta = r.Intn(120)
	rf.Pwm0 = []int{r.Intn(256), r.Intn(256), 255, 0}[r.Intn(4)] // incl. a fan that was at full speed / stopped
	rf.Mode0 = []int{0, 1, 2, 2, 3, 5}[r.Intn(6)]
	rf.Rest = randRest(r)
	if rf.Spec.HasMode && rf.Mode0 != 1 && rf.Rest[1] == "ok" && r.Intn(2) == 0 {
		// the device would refuse the full-speed write as well - but it accepts the hand-back by mode, so the property can
		// be met (it is excluded as vacuous only where nothing at all can be done for the fan)
		rf.Rest[2] = []string{"fail", "ign"}[r.Intn(2)]
	}
	if rf.Spec.Kind == "hwmon" && r.Intn(2) == 0 {
		// a fan whose maximum is below 255 (configured): "full speed" is still PWM 255
		rf.Spec.CfgMax = ip(120 + r.Intn(135))
		if r.Intn(2) == 0 {
			rf.Spec.CfgMin = ip(r.Intn(100))
		}
	}
	return rf
}

// TestDriveC03: the real controller.Run of 1..2 fans in a bubble; the context is cancelled at an
// instant chosen relative to the controller's hook events (every phase of the life cycle), the
// driver outcomes of the restore writes follow the schedule; control errors (stall at max PWM,
// failing curve) end regulation on their own.
func TestDriveC03(t *testing.T) {
	out := os.Getenv("VERIF_OUT")
	if out == "" {
		t.Skip("VERIF_OUT not set")
	}
	seed := int64(envInt("VERIF_SEED", 1))
	n := envInt("VERIF_N", 10)
	rec, err := NewRecorder(out)
	must(err)
	defer rec.Close()
	r := rand.New(rand.NewSource(seed))
	for i := 0; i < n; i++ {
		sseed := r.Int63()
		synctest.Test(t, func(t *testing.T) { runC03Scenario(rec, rand.New(rand.NewSource(sseed))) })
	}
}

func runC03Scenario(rec *Recorder, r *rand.Rand) {
	nf := 1 + r.Intn(2)
	cfg := RunCfg{Parallel: true, FanResponseDelay: r.Intn(2)}
	stall := r.Intn(5) == 0
	curveErr := r.Intn(8) == 0
	for k := 0; k < nf; k++ {
		rf := randRunFan(r, []string{"f1", "f2"}[k], os.Getenv("VERIF_NOCMD") == "")
		if k == 0 && stall {
			rf.Spec.Kind, rf.Spec.HasRpm, rf.Spec.NeverStop = "hwmon", true, true
			rf.Spec.HasMode = r.Intn(3) > 0
			rf.Spec.CfgMin, rf.Spec.CfgMax = ip(250+r.Intn(5)), ip(255)
			rf.Spec.Alg = AlgSpec{T: "direct"}
			rf.Quant = 1
			rf.Theta = 1000 // never turns
			rf.Spec.N = 1 + r.Intn(3)
		}
		if k == 0 && curveErr && !stall {
			rf.CurveErrAt = r.Intn(6)
		}
		cfg.Fans = append(cfg.Fans, rf)
	}
	cv := r.Intn(256)
	if stall {
		cv = 0
	}
	cfg.CurveValue = func(n int) int { return cv }
	// optionally a previous run stored the fans' characterisation (skip analysis)
	prestore := r.Intn(2) == 0
	dir := scratchDir("verif.c03.")
	defer os.RemoveAll(dir)
	cfg.Dir = dir
	if prestore {
		null, _ := NewRecorder(os.DevNull)
		pc := cfg
		pc.Fans = append([]RunFan{}, cfg.Fans...)
		for i := range pc.Fans {
			pc.Fans[i].Rest = [3]string{"ok", "ok", "ok"}
			pc.Fans[i].CurveErrAt = -1
			pc.Fans[i].Theta = 0
		}
		h0 := NewRunHarness(null, pc)
		ctx0, cancel0 := context.WithCancel(context.Background())
		var mu0 sync.Mutex
		started := 0
		h0.OnEvent = func(n int, fanId, event string) {
			if event == "LoopStarted" {
				mu0.Lock()
				started++
				all := started == len(pc.Fans)
				mu0.Unlock()
				if all {
					cancel0()
				}
			}
		}
		// long enough for the analysis of all fans (virtual time), then stop
		done0 := make(chan struct{})
		go func() {
			select {
			case <-time.After(40 * time.Minute):
			case <-done0:
			}
			cancel0()
		}()
		h0.Start(ctx0, nil)
		h0.Wait()
		close(done0)
		h0.Close(false)
		null.Close()
	}
	rec.NextTrace()
	h := NewRunHarness(rec, cfg)
	defer h.Close(false)
	ctx, cancel := context.WithCancel(context.Background())
	defer cancel()
	// cancel after the k-th hook event plus a small delay
	est := 60
	if !prestore {
		est = 120
	}
	cancelAt := 1 + r.Intn(est)
	if stall || curveErr {
		cancelAt = 40 + r.Intn(200)
	}
	delay := []time.Duration{0, time.Millisecond, 100 * time.Millisecond, 700 * time.Millisecond}[r.Intn(4)]
	var once sync.Once
	fire := func(why string) {
		once.Do(func() {
			go func() {
				time.Sleep(delay)
				rec.Emit(Ev{"ev": "Cancel", "why": why, "vt": h.vt()})
				cancel()
			}()
		})
	}
	h.OnEvent = func(n int, fanId, event string) {
		if n == cancelAt {
			fire("event")
		}
	}
	done := make(chan struct{})
	go func() {
		select {
		case <-time.After(45 * time.Minute):
			fire("timeout")
		case <-done:
		}
	}()
	h.Start(ctx, Ev{"scenario": Ev{"stall": stall, "curveErr": curveErr, "prestore": prestore, "cancelAt": cancelAt}})
	h.Wait()
	close(done)
	h.Final()
}

// TestDriveC16: 2..4 fans that all need analysis, started with relative delays, behind plants of
// differing settle times. VERIF_PARALLEL=0: runFanInitializationInParallel=false, in REAL time
// (a goroutine waiting for the initialisation mutex is not durably blocked, so a synctest bubble
// would never advance its clock). VERIF_PARALLEL=1: option true, in a bubble (overlap expected).
func TestDriveC16(t *testing.T) {
	out := os.Getenv("VERIF_OUT")
	if out == "" {
		t.Skip("VERIF_OUT not set")
	}
	seed := int64(envInt("VERIF_SEED", 1))
	n := envInt("VERIF_N", 1)
	parallel := envInt("VERIF_PARALLEL", 0) == 1
	nfMax := envInt("VERIF_MAXFANS", 2)
	rec, err := NewRecorder(out)
	must(err)
	defer rec.Close()
	r := rand.New(rand.NewSource(seed))
	for i := 0; i < n; i++ {
		sseed := r.Int63()
		variation := int((seed+int64(i))%3) + 10*int(((seed+int64(i))/3)%4) // variation + 10 * kind of fault
		if (seed+int64(i))%4 == 0 {
			variation += 100 // all fans are analysed by the PWM-map sweep of computePwmMap only, and start close together
		}
		body := func() { runC16Scenario(rec, rand.New(rand.NewSource(sseed)), parallel, nfMax, variation) }
		if parallel {
			synctest.Test(t, func(t *testing.T) { body() })
		} else {
			body()
		}
	}
}

func runC16Scenario(rec *Recorder, r *rand.Rand, parallel bool, nfMax int, variation int) {
	nf := 2
	if nfMax > 2 {
		nf = 2 + r.Intn(nfMax-1)
	}
	if os.Getenv("VERIF_EXACTFANS") != "" {
		nf = nfMax
	}
	cfg := RunCfg{Parallel: parallel, FanResponseDelay: 0}
	ids := []string{"f1", "f2", "f3", "f4"}
	for k := 0; k < nf; k++ {
		rf := RunFan{ID: ids[k], CurveErrAt: -1, Rest: [3]string{"ok", "ok", "ok"}}
		// mostly hwmon fans (sweep + RPM curve measurement), some file fans (sweep only)
		if r.Intn(4) == 0 {
			rf.Spec = FanSpec{Kind: "file", HasRpm: r.Intn(2) == 0}
		} else {
			rf.Spec = FanSpec{Kind: "hwmon", HasRpm: true, HasMode: r.Intn(3) > 0}
		}
		rf.Spec.N = 10
		rf.Spec.Alg = AlgSpec{T: "direct"}
		rf.Quant = []int{51, 64, 85}[r.Intn(3)]
		if r.Intn(3) == 0 { // pwmMap given in the configuration: no sweep, but hwmon fans still measure their RPM curve
			q := rf.Quant
			m := map[int]int{}
			for v := 0; v <= 255; v += q {
				m[v] = v
			}
			m[255] = 255
			rf.Spec.CfgMap = m
		}
		rf.Theta = r.Intn(60)
		if rf.Spec.Kind == "hwmon" && rf.Spec.CfgMap == nil && r.Intn(3) == 0 {
			// a register that rounds up, or a device with a range of 0..100: request values and device values differ
			rf.QMode = []string{"ceil", "scale"}[r.Intn(2)]
			if rf.QMode == "scale" {
				m := map[int]int{}
				for v := 0; v <= 255; v++ {
					m[v] = v * 100 / 255
				}
				rf.Spec.CfgMap = m
			}
		}
		rf.Pwm0 = r.Intn(256)
		rf.Mode0 = 2
		rf.StartDelay = time.Duration(r.Intn(2500)) * time.Millisecond
		if variation >= 100 {
			// file fans store default RPM data on their first start and get their PWM map from the sweep inside
			// computePwmMap (not from the initialization sequence): these sweeps must not overlap either
			rf.Spec = FanSpec{Kind: "file", HasRpm: r.Intn(2) == 0, N: 10, Alg: AlgSpec{T: "direct"}}
			rf.StartDelay = time.Duration(r.Intn(600)) * time.Millisecond
		}
		if k == 0 && r.Intn(2) == 0 {
			rf.StartDelay = 0
		}
		cfg.Fans = append(cfg.Fans, rf)
	}
	dir := scratchDir("verif.c16.")
	defer os.RemoveAll(dir)
	cfg.Dir = dir
	rec.NextTrace()
	h := NewRunHarness(rec, cfg)
	defer h.Close(false)
	// plants of differing settle times: the reported RPM approaches its target over tau
	for k, rf := range cfg.Fans {
		if !rf.Spec.HasRpm {
			continue
		}
		px := rf.ID + "."
		theta := rf.Theta
		tau := time.Duration(300+r.Intn(1500)) * time.Millisecond
		_ = k
		h.Env.Computed[px+"rpm"] = func(e *Env) int {
			p := e.Raw(px + "pwm")
			target := 0
			if p > theta {
				target = 500 + 10*p
			}
			el := time.Since(h.LastWrite(px + "pwm"))
			if el >= tau {
				return target
			}
			return int(float64(target) * float64(el) / float64(tau))
		}
	}
	ctx, cancel := context.WithCancel(context.Background())
	defer cancel()
	var mu sync.Mutex
	started := 0
	// variations: 0 = undisturbed; 1 = the daemon is stopped while one fan is being analysed and others wait for their
	// turn; 2 = a read of the fan being measured fails in the middle of its measurement (the sequence fails or goes on,
	// either way the next fan must not start before this one is done with the device)
	delay := time.Duration(r.Intn(1500)) * time.Millisecond
	inAnalysis := 0 // fans between AnalysisStart and AnalysisEnd
	faultReg := []string{"rpm", "pwm"}[r.Intn(2)]
	faultN := 1 + r.Intn(3)
	faultKind := variation / 10 % 10
	variation = variation % 10
	faultSkip := r.Intn(6)
	phases := 0
	fired := false
	// helper goroutines end with the scenario (a bubble must not be left with sleepers)
	stop := make(chan struct{})
	var bg sync.WaitGroup
	after := func(d time.Duration, fn func()) {
		bg.Add(1)
		go func() {
			defer bg.Done()
			select {
			case <-stop:
			case <-time.After(d):
				fn()
			}
		}()
	}
	h.OnEvent = func(n int, fanId, event string) {
		if event == "AnalysisStart" || event == "AnalysisEnd" || event == "AnalysisBegin" || event == "MeasureBegin" {
			mu.Lock()
			phases++
			switch event {
			case "AnalysisStart":
				inAnalysis++
			case "AnalysisEnd":
				inAnalysis--
			}
			// 1: stop the daemon when a fan has just queued up behind a running analysis; 2: fault in a measurement
			fire := !fired && ((variation == 1 && event == "AnalysisBegin" && inAnalysis > 0) || (variation == 2 && event == "MeasureBegin"))
			if fire {
				fired = true
			}
			mu.Unlock()
			if fire && variation == 1 {
				after(delay, func() {
					rec.Emit(Ev{"ev": "Cancel", "why": "during analysis", "vt": h.vt()})
					cancel()
				})
			}
			if fire && variation == 2 && faultKind == 3 {
				// the RPM input dies when the measurement leaves PWM 0 (the settle loop - which waits for readings for ever - and
				// the standstill level are through) and stays dead far longer than the measurement could last: nothing but a
				// standstill reading exists, so there is nothing to derive limits from
				h.ReadFaultOnWrite(fanId+".rpm", 300, fanId+".pwm", 1)
			} else if fire && variation == 2 {
				after(delay, func() {
					// which access fails decides whether the sequence aborts: a refused PWM write always does, a failed
					// RPM read only outside the settle loop, a failed PWM read only if it is not the feature probe
					switch faultKind {
					case 0:
						h.WriteFault(fanId+".pwm", 1)
					case 1:
						h.ReadFault(fanId+".rpm", faultN*10)
					default:
						h.ReadFaultSkip(fanId+"."+faultReg, faultN, faultSkip)
					}
				})
			}
		}
		if event == "LoopStarted" {
			mu.Lock()
			started++
			all := started == len(cfg.Fans)
			mu.Unlock()
			if all {
				after(300*time.Millisecond, func() {
					rec.Emit(Ev{"ev": "Cancel", "why": "all started", "vt": h.vt()})
					cancel()
				})
			}
		}
	}
	// a run in which a fan failed never reaches "all started": stop once every fan is regulating or has returned
	var watch func()
	watch = func() {
		mu.Lock()
		st := started
		mu.Unlock()
		if ctx.Err() == nil && st+h.Returned() >= len(cfg.Fans) && st < len(cfg.Fans) && h.Returned() > 0 {
			rec.Emit(Ev{"ev": "Cancel", "why": "rest started, some failed", "vt": h.vt()})
			cancel()
			return
		}
		after(200*time.Millisecond, watch)
	}
	after(200*time.Millisecond, watch)
	h.Start(ctx, Ev{"scenario": Ev{"c16": true, "variation": variation}})
	h.Wait()
	close(stop)
	bg.Wait()
	h.Final()
}

// TestDriveC15: histories of start / stop / `fan reset` / `fan init` over one database.
// Every start is the real controller.Run (in a bubble) of 1..2 fans, stopped shortly after the
// first regulation cycles; the CLI commands are emulated by their bodies (delete both entries,
// init: run the initialization sequence).
func TestDriveC15(t *testing.T) {
	out := os.Getenv("VERIF_OUT")
	if out == "" {
		t.Skip("VERIF_OUT not set")
	}
	seed := int64(envInt("VERIF_SEED", 1))
	n := envInt("VERIF_N", 3)
	rec, err := NewRecorder(out)
	must(err)
	defer rec.Close()
	r := rand.New(rand.NewSource(seed))
	for i := 0; i < n; i++ {
		runC15History(t, rec, rand.New(rand.NewSource(r.Int63())))
	}
}

func runC15History(t *testing.T, rec *Recorder, r *rand.Rand) {
	dir := scratchDir("verif.c15.")
	defer os.RemoveAll(dir)
	nf := 1 + r.Intn(2)
	var fansCfg []RunFan
	for k := 0; k < nf; k++ {
		rf := RunFan{ID: []string{"f1", "f2"}[k], CurveErrAt: -1, Rest: [3]string{"ok", "ok", "ok"}, Mode0: 2, Pwm0: r.Intn(256)}
		switch r.Intn(8) {
		case 0, 1:
			rf.Spec = FanSpec{Kind: "file", HasRpm: r.Intn(2) == 0}
		case 2:
			if os.Getenv("VERIF_NOCMD") == "" {
				rf.Spec = FanSpec{Kind: "cmd", HasRpm: r.Intn(2) == 0}
			} else {
				rf.Spec = FanSpec{Kind: "file", HasRpm: true}
			}
		default:
			rf.Spec = FanSpec{Kind: "hwmon", HasRpm: true, HasMode: r.Intn(3) > 0}
		}
		rf.Spec.N = 10
		rf.Spec.Alg = AlgSpec{T: "direct"}
		rf.Spec.NeverStop = r.Intn(2) == 0
		rf.Quant = []int{32, 51, 64, 85}[r.Intn(4)]
		rf.Theta = r.Intn(60)
		if r.Intn(3) == 0 { // pwmMap given in the configuration
			q := rf.Quant
			m := map[int]int{}
			for v := 0; v <= 255; v += q {
				m[v] = v
			}
			m[255] = 255
			if r.Intn(4) == 0 {
				m = map[int]int{255: 255} // a single supported value: the measured RPM curve has one sample
			}
			rf.Spec.CfgMap = m
		}
		if rf.Spec.Kind == "hwmon" && r.Intn(3) == 0 { // minPwm and maxPwm configured
			rf.Spec.CfgMin, rf.Spec.CfgMax = ip(20+r.Intn(30)), ip(200+r.Intn(56))
		}
		fansCfg = append(fansCfg, rf)
	}
	rec.NextTrace()
	ops := 3 + r.Intn(4)
	first := true
	lastInit := false
	for o := 0; o < ops; o++ {
		x := r.Intn(10)
		if lastInit && r.Intn(2) == 0 {
			x = 6 // `fan init` followed by `fan reset`: whatever init stored (for a fan without RPM sensor: the PWM map only) is gone
		}
		lastInit = !first && x >= 8
		if first || x < 6 {
			// start, run until every fan has regulated for a few cycles, stop
			// variations of a start (not the first): 1 = the regulation of one fan ends with a fault after a few cycles (its
			// curve cannot be evaluated any more) - what is stored about the fan is not touched by that; 2 = the user runs
			// `fan reset` for one fan WHILE the daemon is regulating (the command's body, in the bubble), then the daemon
			// is stopped - what was discarded stays discarded
			startVar := 0
			if !first {
				startVar = []int{0, 0, 1, 2}[r.Intn(4)]
			}
			victim := r.Intn(len(fansCfg))
			synctest.Test(t, func(t *testing.T) {
				cfg := RunCfg{Parallel: true, Dir: dir, Fans: append([]RunFan{}, fansCfg...)}
				if startVar == 1 {
					cfg.Fans[victim].CurveErrAt = 2 + r.Intn(3)
				}
				h := NewRunHarness(rec, cfg)
				defer h.Close(false)
				ctx, cancel := context.WithCancel(context.Background())
				defer cancel()
				var mu sync.Mutex
				cycles := map[string]int{}
				stopping := false
				h.OnEvent = func(n int, fanId, event string) {
					if event == "CycleEnd" {
						mu.Lock()
						cycles[fanId]++
						all := len(cycles) == len(cfg.Fans) && !stopping
						for _, c := range cycles {
							if c < 2 {
								all = false
							}
						}
						if all {
							stopping = true
						}
						mu.Unlock()
						if all {
							if startVar == 2 {
								_ = h.Cli(cfg.Fans[victim].ID, false)
							}
							rec.Emit(Ev{"ev": "Cancel", "why": "regulating"})
							cancel()
						}
					}
				}
				// somebody else uses the database at the moment the controllers want to load from it (a `fan2go fan ...`
				// command run by the user, another fan's controller): they have to wait for the file lock, not give up
				holder := make(chan struct{})
				if r.Intn(3) == 0 {
					go func() {
						defer close(holder)
						time.Sleep(2300 * time.Millisecond)
						db, err := bolt.Open(filepath.Join(dir, "fan2go.db"), 0600, &bolt.Options{Timeout: time.Second})
						if err != nil {
							return
						}
						time.Sleep(time.Duration(200+r.Intn(600)) * time.Millisecond)
						_ = db.Close()
					}()
				} else {
					close(holder)
				}
				// a start in which a fan never gets to regulate (its Run returned with an error) must end as well: stop when
				// every fan regulates or has returned, and in any case after 20 minutes of virtual time
				stopW := make(chan struct{})
				watcher := make(chan struct{})
				go func() {
					defer close(watcher)
					deadline := time.Now().Add(20 * time.Minute)
					for {
						select {
						case <-stopW:
							return
						case <-time.After(500 * time.Millisecond):
						}
						mu.Lock()
						ok := 0
						for _, c := range cycles {
							if c >= 2 {
								ok++
							}
						}
						mu.Unlock()
						if ctx.Err() == nil && ((h.Returned() > 0 && ok+h.Returned() >= len(cfg.Fans)) || time.Now().After(deadline)) {
							rec.Emit(Ev{"ev": "Cancel", "why": "some fans returned / budget"})
							cancel()
						}
					}
				}()
				h.Start(ctx, Ev{"newTrace": first, "scenario": Ev{"c15": true, "op": o}})
				h.Wait()
				close(stopW)
				<-watcher
				<-holder
				h.Final()
			})
			first = false
		} else {
			// CLI between two runs: `fan reset` is the real command in a child process (cmd.Execute), `fan init`
			// (which takes real time for the analysis) is emulated by its body in a bubble
			id := fansCfg[r.Intn(len(fansCfg))].ID
			if x < 8 {
				cfg := RunCfg{Parallel: true, Dir: dir, Fans: fansCfg}
				h := NewRunHarness(rec, cfg)
				if err := h.CliReset(id); err != nil {
					h.Close(false)
					panic(err)
				}
				h.Close(false)
			} else {
				synctest.Test(t, func(t *testing.T) {
					cfg := RunCfg{Parallel: true, Dir: dir, Fans: fansCfg}
					h := NewRunHarness(rec, cfg)
					defer h.Close(false)
					_ = h.Cli(id, true)
				})
			}
		}
	}
}

// TestDriveC10Run: the real controller.Run (RPM monitor and control loop as the two concurrent
// goroutines they are) behind plants that turn only above a threshold or never, constant curve,
// windows 1..50, stored characterisation (so that regulation starts at once).
func TestDriveC10Run(t *testing.T) {
	out := os.Getenv("VERIF_OUT")
	if out == "" {
		t.Skip("VERIF_OUT not set")
	}
	seed := int64(envInt("VERIF_SEED", 1))
	n := envInt("VERIF_N", 4)
	rec, err := NewRecorder(out)
	must(err)
	defer rec.Close()
	r := rand.New(rand.NewSource(seed))
	for i := 0; i < n; i++ {
		sseed := r.Int63()
		synctest.Test(t, func(t *testing.T) { runC10RunScenario(rec, rand.New(rand.NewSource(sseed))) })
	}
}

func runC10RunScenario(rec *Recorder, r *rand.Rand) {
	dir := scratchDir("verif.c10r.")
	defer os.RemoveAll(dir)
	win := []int{1, 2, 3, 5, 10, 20, 50}[r.Intn(7)]
	mn := 100 + r.Intn(120)
	mx := mn + 2 + r.Intn(30)
	if mx > 255 {
		mx = 255
	}
	rf := RunFan{ID: "f1", CurveErrAt: -1, Rest: [3]string{"ok", "ok", "ok"}, Pwm0: r.Intn(256), Mode0: 2, Quant: 1}
	rf.Spec = FanSpec{Kind: "hwmon", HasRpm: true, HasMode: r.Intn(3) > 0, NeverStop: true, N: win,
		CfgMin: ip(mn), CfgMax: ip(mx), Alg: []AlgSpec{{T: "direct"}, {T: "rate", M: 10}, DefaultPid(200)}[r.Intn(3)]}
	lateRpm := false
	if r.Intn(4) == 0 {
		// a file fan (limits 0..255) whose RPM file is unreadable for a moment when fan2go starts (its producer starts later)
		rf.Spec = FanSpec{Kind: "file", HasRpm: true, NeverStop: true, N: win, Alg: AlgSpec{T: "direct"}}
		mn, mx = 0, 255
		lateRpm = r.Intn(2) == 0
	}
	m := map[int]int{}
	for v := 0; v <= 255; v++ {
		m[v] = v
	}
	rf.Spec.CfgMap = m
	// the fan turns iff pwm > theta; never when theta is beyond the maximum
	rf.Theta = mn - 1 + r.Intn(mx-mn+4)
	if r.Intn(3) == 0 {
		rf.Theta = 1000
	}
	cfg := RunCfg{Parallel: true, Dir: dir, Fans: []RunFan{rf}, Window: win, RpmPollMs: []int{200, 1000}[r.Intn(2)], TickMs: 200}
	cv := []int{0, 0, 5, 60}[r.Intn(4)]
	if rf.Spec.Kind == "file" {
		cv = 200 + r.Intn(50) // few steps up to 255
		rf.Theta = 1000
		if r.Intn(2) == 0 {
			rf.Theta = 200 + r.Intn(60)
		}
		cfg.Fans[0].Theta = rf.Theta
	}
	cfg.CurveValue = func(n int) int { return cv }
	// store the characterisation first (same database), with a fan that turns everywhere - except for some hwmon fans,
	// whose FIRST start (analysis, second attachment of limits, then regulation) is the run that is observed
	firstStart := rf.Spec.Kind == "hwmon" && rf.Theta < 255 && r.Intn(3) == 0
	if firstStart {
		cfg.Fans[0].Spec.CfgMap = nil // (the PWM map is swept as well)
	}
	if !firstStart {
		null, _ := NewRecorder(os.DevNull)
		pc := cfg
		pc.Fans = []RunFan{rf}
		pc.Fans[0].Theta = 0
		h0 := NewRunHarness(null, pc)
		ctx0, cancel0 := context.WithCancel(context.Background())
		h0.OnEvent = func(n int, fanId, event string) {
			if event == "LoopStarted" {
				cancel0()
			}
		}
		h0.Start(ctx0, nil)
		h0.Wait()
		h0.Close(false)
		cancel0()
		null.Close()
	}
	rec.NextTrace()
	h := NewRunHarness(rec, cfg)
	defer h.Close(false)
	h.Quiet = map[string]bool{"RpmBegin": true, "CycleBegin": true} // (ladders are long; Monitor_Stall reads RpmEnd / CycleEnd)
	// the fan was spinning at some speed before (prior RPM average), or never spun
	h.fs["f1"].fan.SetRpmAvg([]float64{0, 0, 1, 20, 800, 3000, 20000}[r.Intn(7)])
	if lateRpm {
		h.ReadFault("f1.rpm", 2+r.Intn(3)) // the first reads of the RPM file fail
	}
	ctx, cancel := context.WithCancel(context.Background())
	defer cancel()
	var once sync.Once
	stop := func(why string) {
		once.Do(func() {
			rec.Emit(Ev{"ev": "Cancel", "why": why, "vt": h.vt()})
			cancel()
		})
	}
	h.OnEvent = func(n int, fanId, event string) {
		if event == "RestoreEnd" {
			go stop("regulation ended")
		}
	}
	done := make(chan struct{})
	go func() {
		// enough virtual time for the whole ladder: (max-min+2) steps of at most (12n+2) polls
		steps := mx - mn + 4
		if rf.Spec.Kind == "file" {
			steps = 60
		}
		budget := time.Duration(steps*(12*win+4)*cfg.RpmPollMs) * time.Millisecond
		select {
		case <-time.After(budget + 10*time.Second):
			stop("budget")
		case <-done:
		}
	}()
	h.Start(ctx, Ev{"scenario": Ev{"c10run": true, "theta": rf.Theta, "cv": cv, "win": win}})
	h.Wait()
	close(done)
	h.Final()
}

// TestDriveC05Run: third-party writes to pwm / pwm_enable at virtual instants between two ticks of
// the real controller.Run (stored characterisation, identity map, regulation from t = 3.4 s on).
func TestDriveC05Run(t *testing.T) {
	out := os.Getenv("VERIF_OUT")
	if out == "" {
		t.Skip("VERIF_OUT not set")
	}
	seed := int64(envInt("VERIF_SEED", 1))
	n := envInt("VERIF_N", 4)
	rec, err := NewRecorder(out)
	must(err)
	defer rec.Close()
	r := rand.New(rand.NewSource(seed))
	for i := 0; i < n; i++ {
		sseed := r.Int63()
		synctest.Test(t, func(t *testing.T) {
			r := rand.New(rand.NewSource(sseed))
			dir := scratchDir("verif.c05r.")
			defer os.RemoveAll(dir)
			rf := RunFan{ID: "f1", CurveErrAt: -1, Rest: [3]string{"ok", "ok", "ok"}, Pwm0: r.Intn(256), Mode0: 2, Quant: 1, Theta: 0}
			mn, mx := randLimits(r)
			rf.Spec = FanSpec{Kind: []string{"hwmon", "hwmon", "file"}[r.Intn(3)], HasRpm: r.Intn(2) == 0, NeverStop: r.Intn(2) == 0, N: 10,
				Alg: []AlgSpec{{T: "direct"}, {T: "rate", M: 10}, DefaultPid(200)}[r.Intn(3)]}
			rf.Spec.HasMode = rf.Spec.Kind == "hwmon"
			if rf.Spec.Kind == "hwmon" {
				rf.Spec.CfgMin, rf.Spec.CfgMax = ip(mn), ip(mx)
				rf.Spec.HasRpm = true // (a hwmon fan without RPM input is never regulated: Run finds no curve data for it and returns)
			}
			m := map[int]int{}
			for v := 0; v <= 255; v++ {
				m[v] = v
			}
			rf.Spec.CfgMap = m
			cfg := RunCfg{Parallel: true, Dir: dir, Fans: []RunFan{rf}}
			vals := []int{r.Intn(256), r.Intn(256), r.Intn(256)}
			cfg.CurveValue = func(n int) int { return vals[(n/7)%3] }
			{ // store the characterisation first
				null, _ := NewRecorder(os.DevNull)
				h0 := NewRunHarness(null, cfg)
				ctx0, cancel0 := context.WithCancel(context.Background())
				h0.OnEvent = func(n int, fanId, event string) {
					if event == "LoopStarted" {
						cancel0()
					}
				}
				h0.Start(ctx0, nil)
				h0.Wait()
				h0.Close(false)
				cancel0()
				null.Close()
			}
			rec.NextTrace()
			h := NewRunHarness(rec, cfg)
			defer h.Close(false)
			ctx, cancel := context.WithCancel(context.Background())
			defer cancel()
			// in a third of the runs the very first read of the PWM value fails (driver not ready right after boot / resume):
			// a transient fault at start-up changes nothing about what is counted later
			startFault := r.Intn(3) == 0
			if startFault {
				h.ReadFaultSkip("f1.pwm", 1, 0)
			}
			quiet := r.Intn(6) == 0 // nobody touches the fan at all
			var cmu sync.Mutex
			ncycles := 0
			h.OnEvent = func(n int, fanId, event string) {
				if event == "CycleEnd" {
					cmu.Lock()
					ncycles++
					cmu.Unlock()
				}
			}
			h.Start(ctx, Ev{"scenario": Ev{"c05run": true, "startFault": startFault}})
			// the loop ticks at 3.6 s, 3.8 s, ...: interfere at x.7 / x.9 s, strictly between two ticks
			time.Sleep(3700 * time.Millisecond)
			effective := 0 // PWM values written by somebody else that differ from what the fan showed
			for k := 0; k < 40; k++ {
				if r.Intn(3) > 0 && !quiet {
					if rf.Spec.HasMode && r.Intn(2) == 0 {
						h.Poke("f1", "mode", []int{0, 2, 3}[r.Intn(3)])
					}
					if r.Intn(3) > 0 {
						v := r.Intn(256)
						if v != h.Reg("f1", "pwm") {
							effective++
						}
						h.Poke("f1", "pwm", v)
					}
				}
				time.Sleep(time.Duration(200*(1+r.Intn(3))) * time.Millisecond)
			}
			rec.Emit(Ev{"ev": "Cancel", "why": "done"})
			cancel()
			h.Wait()
			// "a changed PWM value is counted as a third-party change, and none is counted while nothing else touches the fan"
			rec.Emit(Ev{"ev": "C05Count", "effective": effective, "quiet": quiet, "startFault": startFault, "cycles": ncycles,
				"unexpected": h.Ctl("f1").VerifState().Stats.UnexpectedPwmValueCount})
			h.Final()
		})
	}
}
