//go:build verif

package verifharness

import (
	"bufio"
	"bytes"
	"encoding/json"
	"fmt"
	"hash/fnv"
	"math/rand"
	"os"
	"os/exec"
	"path/filepath"
	"strconv"
	"strings"
	"testing"
	"time"

	"github.com/markusressel/fan2go/internal"
	"github.com/markusressel/fan2go/internal/configuration"
	"github.com/markusressel/fan2go/internal/curves"
	"github.com/markusressel/fan2go/internal/sensors"
	"github.com/prometheus/client_golang/prometheus"
)

// ---------------------------------------------------------------------------------------------
// C11: generated configurations go through the real path YAML text -> viper loader -> validator;
// accepted ones are instantiated (internal.InitializeObjects on a fake hwmon tree) and every curve
// is evaluated for several sensor vectors. Everything runs in a child process: a crash (endless
// recursion is a fatal stack overflow) is recorded by the parent as an observation.
// ---------------------------------------------------------------------------------------------

type acSensor struct {
	ID   string `json:"id"`
	Nb   int    `json:"nb"`
	HwOk bool   `json:"hwOk"`
	kind []string
}
type acCurve struct {
	ID      string   `json:"id"`
	Nb      int      `json:"nb"`
	Kind    string   `json:"kind"`
	Sensor  string   `json:"sensor"`
	Fn      string   `json:"fn"`
	Members []string `json:"members"`
	Steps   int      `json:"steps"`
	PidOk   bool     `json:"pidOk"`
	extra   string
}
type acFan struct {
	ID    string `json:"id"`
	Nb    int    `json:"nb"`
	Curve string `json:"curve"`
	AlgOk bool   `json:"algOk"`
	HwOk  bool   `json:"hwOk"`
	kinds []string
	alg   string
	hw    string
}
type acCfg struct {
	Sensors    []acSensor `json:"sensors"`
	Curves     []acCurve  `json:"curves"`
	Fans       []acFan    `json:"fans"`
	Documented bool       `json:"documented"`
}

func pick[T any](r *rand.Rand, xs ...T) T { return xs[r.Intn(len(xs))] }

// genCfg: documented=true builds only from documented forms (must be accepted); otherwise
// defects are mixed in: duplicate / dangling / missing ids, 0 or 2 backends, cycles of every
// length, empty member and step lists, bad algorithm values.
func genCfg(r *rand.Rand, documented bool) acCfg {
	var c acCfg
	c.Documented = documented
	bad := func(p int) bool { return !documented && r.Intn(p) == 0 }
	ns := 1 + r.Intn(3)
	for i := 0; i < ns; i++ {
		s := acSensor{ID: fmt.Sprintf("s%d", i+1), Nb: 1, HwOk: true, kind: []string{pick(r, "file", "cmd", "hwmon")}}
		if bad(8) {
			s.ID = "s1"
		}
		if bad(10) {
			s.Nb, s.kind = 0, nil
		} else if bad(10) {
			s.Nb, s.kind = 2, []string{"file", "cmd"}
		} else if bad(14) {
			s.Nb, s.kind = 3, []string{"file", "cmd", "hwmon"} // all three backends at once
		}
		if len(s.kind) == 1 && s.kind[0] == "hwmon" && bad(6) {
			s.HwOk = false
		}
		c.Sensors = append(c.Sensors, s)
	}
	sensorRef := func() string {
		if bad(10) {
			return pick(r, "", "sX")
		}
		if bad(10) { // an id that differs from an existing one only in case is a different id
			return strings.ToUpper(c.Sensors[r.Intn(len(c.Sensors))].ID)
		}
		return c.Sensors[r.Intn(len(c.Sensors))].ID
	}
	nc := 1 + r.Intn(8)
	for i := 0; i < nc; i++ {
		cu := acCurve{ID: fmt.Sprintf("c%d", i+1), Nb: 1, Steps: -1, PidOk: true, Members: []string{}}
		if bad(12) {
			cu.ID = "c1"
		}
		switch k := r.Intn(10); {
		case bad(14):
			cu.Nb, cu.Kind = 0, ""
		case bad(14):
			cu.Nb, cu.Kind, cu.extra = 2, "", "two"
			cu.Sensor = c.Sensors[0].ID
		case bad(18) && i > 0:
			cu.Nb, cu.Kind, cu.extra = 3, "", "three" // linear + pid + function in one entry
			cu.Sensor = c.Sensors[0].ID
			cu.Fn, cu.Members = "maximum", []string{"c1"}
		case k < 4 || i == 0:
			cu.Kind, cu.Sensor = "linear", sensorRef()
			if r.Intn(2) == 0 {
				cu.Steps = 1 + r.Intn(4)
				if bad(5) {
					cu.Steps = 0
				}
			}
		case k < 6:
			cu.Kind, cu.Sensor = "pid", sensorRef()
			if bad(8) {
				cu.PidOk = false
			}
		default:
			cu.Kind = "function"
			cu.Fn = pick(r, "sum", "difference", "delta", "average", "minimum", "maximum")
			if bad(12) {
				cu.Fn = "median"
			}
			nm := 1 + r.Intn(8)
			if nm > i {
				nm = i
			}
			if nm < 1 {
				nm = 1
			}
			for j := 0; j < nm; j++ {
				cu.Members = append(cu.Members, fmt.Sprintf("c%d", 1+r.Intn(i)))
			}
			if bad(6) {
				cu.Members = []string{}
			}
			if bad(8) {
				cu.Members = append(cu.Members, pick(r, "cX", cu.ID, fmt.Sprintf("c%d", 1+r.Intn(nc)), fmt.Sprintf("C%d", 1+r.Intn(i+1))))
			}
		}
		c.Curves = append(c.Curves, cu)
	}
	// a deliberate cycle of length L among function curves
	if !documented && r.Intn(3) == 0 && nc >= 2 {
		L := 1 + r.Intn(nc)
		start := r.Intn(nc - L + 1)
		for j := 0; j < L; j++ {
			i := start + j
			next := start + (j+1)%L
			cu := &c.Curves[i]
			if cu.Nb != 1 {
				cu.Nb = 1
			}
			cu.Kind, cu.Sensor, cu.Steps, cu.extra = "function", "", -1, ""
			if cu.Fn == "" || cu.Fn == "median" {
				cu.Fn = pick(r, "sum", "maximum", "average", "delta")
			}
			// the member that closes the cycle sits anywhere in the list: first, in the middle, last
			at := r.Intn(len(cu.Members) + 1)
			cu.Members = append(cu.Members[:at], append([]string{c.Curves[next].ID}, cu.Members[at:]...)...)
			if r.Intn(2) == 0 {
				cu.Members = append(cu.Members, c.Curves[r.Intn(nc)].ID)
			}
		}
	}
	nf := 1 + r.Intn(2)
	for i := 0; i < nf; i++ {
		f := acFan{ID: fmt.Sprintf("f%d", i+1), Nb: 1, AlgOk: true, HwOk: true, kinds: []string{pick(r, "file", "cmd", "hwmon")}}
		f.Curve = c.Curves[r.Intn(len(c.Curves))].ID
		if bad(10) {
			f.Curve = pick(r, "", "cX", strings.ToUpper(f.Curve))
		}
		if bad(12) {
			f.ID = "f1"
		}
		if bad(12) {
			f.Nb, f.kinds = 0, nil
		} else if bad(12) {
			f.Nb, f.kinds = 2, []string{"file", "hwmon"}
		} else if bad(16) {
			f.Nb, f.kinds = 3, []string{"file", "hwmon", "cmd"}
		}
		f.alg = pick(r, "absent", "direct", "pid", "directmap", "directlimit", "pidmap", "controlLoop")
		if bad(8) {
			f.alg = pick(r, "directzero", "pidzero", "bogus")
			f.AlgOk = false
		}
		f.hw = pick(r, "index", "channel", "channelpwm")
		if bad(8) {
			f.hw = pick(r, "both", "none")
			for _, k := range f.kinds {
				if k == "hwmon" {
					f.HwOk = false
				}
			}
		}
		c.Fans = append(c.Fans, f)
	}
	// a clean configuration whose ONLY defect is a cycle that is entered from outside: lead-in -> a -> b (-> c) -> a, in every
	// declaration order (lead-in first, in the middle, last)
	if !documented && r.Intn(10) == 0 {
		L := 2 + r.Intn(2)
		c.Sensors = []acSensor{{ID: "s1", Nb: 1, HwOk: true, kind: []string{"file"}}}
		mkc := func(id, kind string, members ...string) acCurve {
			cu := acCurve{ID: id, Nb: 1, Steps: -1, PidOk: true, Kind: kind, Members: members}
			if kind == "linear" {
				cu.Sensor, cu.Members = "s1", []string{}
			} else {
				cu.Fn = pick(r, "sum", "maximum", "average")
			}
			return cu
		}
		cyc := []string{"c2", "c3", "c4"}[:L]
		cs := []acCurve{mkc("c1", "linear")}
		for j, id := range cyc {
			ms := []string{cyc[(j+1)%L]}
			if r.Intn(2) == 0 {
				ms = append([]string{"c1"}, ms...)
			} else {
				ms = append(ms, "c1")
			}
			cs = append(cs, mkc(id, "function", ms...))
		}
		lead := mkc("c9", "function", "c1", cyc[r.Intn(L)])
		switch r.Intn(3) {
		case 0:
			cs = append([]acCurve{lead}, cs...)
		case 1:
			cs = append(cs[:2], append([]acCurve{lead}, cs[2:]...)...)
		default:
			cs = append(cs, lead)
		}
		c.Curves = cs
		c.Fans = []acFan{{ID: "f1", Nb: 1, AlgOk: true, HwOk: true, kinds: []string{"file"}, Curve: "c9", alg: "direct", hw: "index"}}
		return c
	}
	// the order of declaration is arbitrary: members may be declared after the function curve that uses them, ids need not
	// be sorted (a configuration is a set of entries)
	if r.Intn(3) > 0 {
		r.Shuffle(len(c.Sensors), func(i, j int) { c.Sensors[i], c.Sensors[j] = c.Sensors[j], c.Sensors[i] })
		r.Shuffle(len(c.Curves), func(i, j int) { c.Curves[i], c.Curves[j] = c.Curves[j], c.Curves[i] })
		r.Shuffle(len(c.Fans), func(i, j int) { c.Fans[i], c.Fans[j] = c.Fans[j], c.Fans[i] })
	}
	return c
}

func renderYaml(c acCfg, dir string) string {
	var b strings.Builder
	// everything the documentation marks as optional is present in some configurations and absent in others
	// (deterministically: a hash of the entry and the shape of the configuration)
	salt := fmt.Sprintf("%d/%d/%d", len(c.Sensors), len(c.Curves), len(c.Fans))
	for _, cu := range c.Curves {
		salt += cu.Kind[:min(1, len(cu.Kind))]
	}
	opt := func(key string) bool {
		h := fnv.New32a()
		h.Write([]byte(key + "|" + salt))
		return h.Sum32()%2 == 0
	}
	fmt.Fprintf(&b, "dbPath: %s\n", filepath.Join(dir, "fan2go.db"))
	if opt("top.rates") {
		b.WriteString("tempSensorPollingRate: 300ms\nrpmPollingRate: 2s\ncontrollerAdjustmentTickRate: 250ms\n")
	}
	if opt("top.windows") {
		b.WriteString("tempRollingWindowSize: 7\nrpmRollingWindowSize: 3\n")
	}
	if opt("top.init") {
		b.WriteString("runFanInitializationInParallel: false\nmaxRpmDiffForSettledFan: 15\nfanResponseDelay: 1\n")
	}
	if opt("top.servers") {
		b.WriteString("api:\n  enabled: false\n  host: localhost\n  port: 9001\nstatistics:\n  enabled: false\n  port: 9000\n")
	}
	b.WriteString("sensors:\n")
	for _, s := range c.Sensors {
		fmt.Fprintf(&b, "  - id: %s\n", s.ID)
		for _, k := range s.kind {
			switch k {
			case "file":
				fmt.Fprintf(&b, "    file:\n      path: %s\n", filepath.Join(dir, "temp"))
			case "cmd":
				fmt.Fprintf(&b, "    cmd:\n      exec: %s\n", filepath.Join(dir, "sensor.sh"))
				if opt("sensor.args." + s.ID) {
					b.WriteString("      args: [\"x\", \"-y\"]\n")
				}
			case "hwmon":
				idx := 1
				if !s.HwOk {
					idx = 0
				}
				fmt.Fprintf(&b, "    hwmon:\n      platform: chipa\n      index: %d\n", idx)
			}
		}
	}
	b.WriteString("curves:\n")
	for _, cu := range c.Curves {
		fmt.Fprintf(&b, "  - id: %s\n", cu.ID)
		lin := func() {
			fmt.Fprintf(&b, "    linear:\n      sensor: %s\n", cu.Sensor)
			if cu.Steps < 0 {
				b.WriteString("      min: 40\n      max: 80\n")
			} else if cu.Steps == 0 {
				// an explicitly empty step list, in either spelling, alone or next to min/max
				switch len(cu.ID+cu.Sensor) % 4 {
				case 0:
					b.WriteString("      steps: {}\n")
				case 1:
					b.WriteString("      steps: []\n")
				case 2:
					b.WriteString("      min: 40\n      max: 80\n      steps: {}\n")
				default:
					b.WriteString("      steps: []\n      min: 30\n      max: 70\n")
				}
			} else {
				b.WriteString("      steps:\n")
				for k := 0; k < cu.Steps; k++ {
					fmt.Fprintf(&b, "        - %d: %d\n", 40+10*k, 50*k+30)
				}
			}
		}
		pid := func() {
			p, i, d := "-0.05", "-0.005", "-0.001"
			if !cu.PidOk {
				p, i, d = "0", "0", "0"
			}
			fmt.Fprintf(&b, "    pid:\n      sensor: %s\n      setPoint: 60\n      p: %s\n      i: %s\n      d: %s\n", cu.Sensor, p, i, d)
		}
		fnBlock := func() {
			fmt.Fprintf(&b, "    function:\n      type: %s\n      curves:\n", cu.Fn)
			for _, m := range cu.Members {
				fmt.Fprintf(&b, "        - %s\n", m)
			}
		}
		switch {
		case cu.extra == "three":
			lin()
			pid()
			fnBlock()
		case cu.extra == "two":
			lin()
			pid()
		case cu.Kind == "linear":
			lin()
		case cu.Kind == "pid":
			pid()
		case cu.Kind == "function":
			fmt.Fprintf(&b, "    function:\n      type: %s\n", cu.Fn)
			if len(cu.Members) == 0 {
				b.WriteString("      curves: []\n")
			} else {
				b.WriteString("      curves:\n")
				for _, m := range cu.Members {
					fmt.Fprintf(&b, "        - %s\n", m)
				}
			}
		}
	}
	b.WriteString("fans:\n")
	for _, f := range c.Fans {
		fmt.Fprintf(&b, "  - id: %s\n", f.ID)
		if f.Curve != "" {
			fmt.Fprintf(&b, "    curve: %s\n", f.Curve)
		}
		if opt("fan.neverStop." + f.ID) {
			fmt.Fprintf(&b, "    neverStop: %v\n", opt("fan.neverStop.value."+f.ID))
		}
		if opt("fan.limits." + f.ID) {
			b.WriteString("    minPwm: 30\n    maxPwm: 240\n")
		}
		if opt("fan.start." + f.ID) {
			b.WriteString("    startPwm: 40\n")
		}
		if opt("fan.pwmMap." + f.ID) {
			b.WriteString("    pwmMap:\n      0: 0\n      64: 128\n      255: 255\n")
		}
		for _, k := range f.kinds {
			switch k {
			case "file":
				fmt.Fprintf(&b, "    file:\n      path: %s\n", filepath.Join(dir, "pwm_"+f.ID))
				if opt("fan.rpmPath." + f.ID) {
					fmt.Fprintf(&b, "      rpmPath: %s\n", filepath.Join(dir, "rpm"))
				}
			case "cmd":
				fmt.Fprintf(&b, "    cmd:\n      setPwm:\n        exec: %s\n        args: [\"%%pwm%%\"]\n      getPwm:\n        exec: %s\n",
					filepath.Join(dir, "set.sh"), filepath.Join(dir, "get.sh"))
				if opt("fan.getPwmArgs." + f.ID) {
					b.WriteString("        args: [\"--current\"]\n")
				}
				if opt("fan.getRpm." + f.ID) {
					fmt.Fprintf(&b, "      getRpm:\n        exec: %s\n", filepath.Join(dir, "get.sh"))
				}
			case "hwmon":
				b.WriteString("    hwmon:\n      platform: chipa\n")
				switch f.hw {
				case "index":
					b.WriteString("      index: 1\n")
				case "channel":
					b.WriteString("      rpmChannel: 2\n")
				case "channelpwm":
					b.WriteString("      rpmChannel: 2\n      pwmChannel: 1\n")
				case "both":
					b.WriteString("      index: 1\n      rpmChannel: 2\n")
				case "none":
				}
			}
		}
		switch f.alg {
		case "direct":
			b.WriteString("    controlAlgorithm: direct\n")
		case "pid":
			b.WriteString("    controlAlgorithm: pid\n")
		case "directmap":
			b.WriteString("    controlAlgorithm:\n      direct: {}\n")
		case "directlimit":
			b.WriteString("    controlAlgorithm:\n      direct:\n        maxPwmChangePerCycle: 10\n")
		case "pidmap":
			b.WriteString("    controlAlgorithm:\n      pid:\n        p: 0.3\n        i: 0.02\n        d: 0.005\n")
		case "controlLoop":
			b.WriteString("    controlLoop:\n      p: 0.03\n      i: 0.002\n      d: 0.0005\n")
		case "directzero":
			b.WriteString("    controlAlgorithm:\n      direct:\n        maxPwmChangePerCycle: 0\n")
		case "pidzero":
			b.WriteString("    controlAlgorithm:\n      pid:\n        p: 0\n        i: 0\n        d: 0\n")
		case "bogus":
			b.WriteString("    controlAlgorithm: turbo\n")
		}
	}
	return b.String()
}

func c11Scenarios(seed int64, n int) []acCfg {
	r := rand.New(rand.NewSource(seed))
	var out []acCfg
	for i := 0; i < n; i++ {
		out = append(out, genCfg(r, i%3 == 0))
	}
	return out
}

func TestDriveC11(t *testing.T) {
	out := os.Getenv("VERIF_OUT")
	if out == "" {
		t.Skip("VERIF_OUT not set")
	}
	seed := int64(envInt("VERIF_SEED", 1))
	n := envInt("VERIF_N", 50)
	if os.Getenv("VERIF_C11_CHILD") != "" {
		c11Child(out, seed, n, envInt("VERIF_C11_FROM", 0))
		return
	}
	_ = os.Remove(out)
	self, _ := os.Executable()
	from := 0
	for from < n {
		cmd := exec.Command(self, "-test.run", "^TestDriveC11$", "-test.timeout", "1500s")
		cmd.Env = append(os.Environ(), "VERIF_C11_CHILD=1", "VERIF_C11_FROM="+strconv.Itoa(from))
		var ob bytes.Buffer
		cmd.Stdout, cmd.Stderr = &ob, &ob
		done := make(chan error, 1)
		must(cmd.Start())
		go func() { done <- cmd.Wait() }()
		var err error
		timedOut := false
		select {
		case err = <-done:
		case <-time.After(300 * time.Second):
			_ = cmd.Process.Kill()
			err = <-done
			timedOut = true
		}
		last, closed := c11Progress(out)
		if err == nil && closed {
			break
		}
		if closed {
			t.Fatalf("C11 child failed outside a case (after case %d): %v\n%s", last, err, tailStr(ob.String(), 3000))
		}
		// case `last` was begun but not finished: the process died (or hung) while running it
		f, e2 := os.OpenFile(out, os.O_APPEND|os.O_WRONLY, 0644)
		must(e2)
		how := "crash"
		if timedOut {
			how = "timeout"
		}
		b, _ := json.Marshal(Ev{"ev": "CfgEnd", "idx": last, "ran": how, "output": tailStr(firstLines(ob.String(), 12), 1200)})
		if data, _ := os.ReadFile(out); len(data) > 0 && data[len(data)-1] != '\n' {
			f.Write([]byte("\n"))
		}
		f.Write(append(b, '\n'))
		f.Close()
		from = last + 1
	}
}

func firstLines(s string, n int) string {
	lines := strings.Split(s, "\n")
	if len(lines) > n {
		lines = lines[:n]
	}
	return strings.Join(lines, "\n")
}

// c11Progress: index of the last case begun, and whether it was finished
func c11Progress(path string) (last int, closed bool) {
	last, closed = -1, true
	f, err := os.Open(path)
	if err != nil {
		return
	}
	defer f.Close()
	sc := bufio.NewScanner(f)
	sc.Buffer(make([]byte, 1<<20), 1<<24)
	for sc.Scan() {
		var e map[string]any
		if json.Unmarshal(sc.Bytes(), &e) != nil {
			continue
		}
		switch e["ev"] {
		case "Cfg":
			last, closed = int(e["idx"].(float64)), false
		case "CfgEnd":
			closed = true
		}
	}
	return
}

func c11Child(out string, seed int64, n, from int) {
	f, err := os.OpenFile(out, os.O_CREATE|os.O_APPEND|os.O_WRONLY, 0644)
	must(err)
	rec := &Recorder{f: f, w: bufio.NewWriterSize(f, 1<<16), Sync: true}
	defer rec.Close()
	scs := c11Scenarios(seed, n)
	dir := scratchDir("verif.c11.")
	defer os.RemoveAll(dir)
	must(os.Chmod(dir, 0755))
	// environment of the configurations: files, scripts, a fake hwmon tree
	writeInt(filepath.Join(dir, "temp"), 55000)
	writeInt(filepath.Join(dir, "rpm"), 1000)
	writeScript(filepath.Join(dir, "sensor.sh"), "echo 55000\n")
	writeScript(filepath.Join(dir, "get.sh"), "echo 100\n")
	writeScript(filepath.Join(dir, "set.sh"), "exit 0\n")
	root := filepath.Join(dir, "hwmon")
	chip := filepath.Join(root, "chipa")
	must(os.MkdirAll(chip, 0755))
	must(os.WriteFile(filepath.Join(chip, "name"), []byte("chipa\n"), 0644))
	for k := 1; k <= 2; k++ {
		writeInt(filepath.Join(chip, fmt.Sprintf("fan%d_input", k)), 1200)
		writeInt(filepath.Join(chip, fmt.Sprintf("pwm%d", k)), 100)
		writeInt(filepath.Join(chip, fmt.Sprintf("pwm%d_enable", k)), 2)
		writeInt(filepath.Join(chip, fmt.Sprintf("temp%d_input", k)), 50000)
	}
	os.Setenv("VERIF_HWMON_ROOT", root)
	for idx := from; idx < len(scs); idx++ {
		c := scs[idx]
		for _, fn := range c.Fans {
			writeInt(filepath.Join(dir, "pwm_"+fn.ID), 100)
		}
		cfgPath := filepath.Join(dir, fmt.Sprintf("fan2go_%d.yaml", idx))
		yaml := renderYaml(c, dir)
		must(os.WriteFile(cfgPath, []byte(yaml), 0644))
		rec.Emit(Ev{"ev": "Cfg", "idx": idx, "sensors": c.Sensors, "curves": c.Curves, "fans": c.Fans, "documented": c.Documented})
		accepted, loadPanic, verr := false, false, ""
		func() {
			defer func() {
				if p := recover(); p != nil {
					loadPanic = true
					verr = fmt.Sprint(p)
				}
			}()
			configuration.InitConfig(cfgPath)
			configuration.DetectAndReadConfigFile()
			configuration.LoadConfig()
			if err := configuration.Validate(cfgPath); err != nil {
				verr = fmtErr(err)
			} else {
				accepted = true
			}
		}()
		ran := "skipped"
		msg := ""
		if accepted {
			ran = "ok"
			func() {
				defer func() {
					if p := recover(); p != nil {
						ran = "panic"
						msg = fmt.Sprint(p)
					}
				}()
				prometheus.DefaultRegisterer = prometheus.NewRegistry()
				if _, err := internal.InitializeObjects(); err != nil {
					ran = "initerr"
					msg = fmtErr(err)
					return
				}
				for _, T := range []float64{-5000, 39999, 40000, 55000, 80000, 1e6} {
					for _, s := range configuration.CurrentConfig.Sensors {
						if so, ok := sensors.GetSensor(s.ID); ok {
							so.SetMovingAvg(T)
						}
					}
					for _, cu := range configuration.CurrentConfig.Curves {
						cv, ok := curves.GetSpeedCurve(cu.ID)
						if !ok {
							ran = "panic"
							msg = "curve not registered: " + cu.ID
							return
						}
						v, err := cv.Evaluate()
						for retry := 0; retry < 3 && err != nil; retry++ {
							// (an error that does not reproduce is the environment - a command that failed on a loaded
							// machine -, not the configuration)
							v, err = cv.Evaluate()
						}
						if err != nil || v < 0 || v > 255 {
							ran = "evalerr"
							msg = fmt.Sprint(v, err)
							return
						}
					}
				}
			}()
		}
		rec.Emit(Ev{"ev": "CfgEnd", "idx": idx, "accepted": accepted, "loadPanic": loadPanic, "verr": verr, "ran": ran, "msg": msg})
		os.Remove(cfgPath)
	}
}
