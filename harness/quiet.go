//go:build verif

package verifharness

import (
	"os"

	"github.com/pterm/pterm"
)

func init() {
	// fan2go logs through pterm; the drivers run millions of cycles
	if os.Getenv("VERIF_LOG") == "" {
		pterm.DisableOutput()
	}
}
