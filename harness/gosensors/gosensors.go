// Package gosensors is a pure-Go stand-in for github.com/md14454/gosensors (a cgo binding
// of libsensors, which is not available in the verification sandbox). It enumerates a fake
// sysfs tree rooted at $VERIF_HWMON_ROOT the way libsensors presents a real one:
//
//	$VERIF_HWMON_ROOT/order            chip directory names, one per line, in enumeration order
//	                                   (absent: lexicographic order of sub-directories)
//	$VERIF_HWMON_ROOT/<chip>/name      chip prefix (e.g. "nct6798")
//	$VERIF_HWMON_ROOT/<chip>/bus       optional "<type> <nr> <addr>" (default "1 0 <0x290+i>")
//	$VERIF_HWMON_ROOT/<chip>/fanN_input, fanN_min, fanN_max, tempN_input, tempN_max, tempN_min
//
// Features are presented per chip sorted by type (fan before temp, as libsensors does:
// in, fan, temp, ...) and by channel number.
package gosensors

import (
	"fmt"
	"os"
	"path/filepath"
	"regexp"
	"sort"
	"strconv"
	"strings"
)

type SubFeatureType int32
type FeatureType int32

// values as in sensors/sensors.h
const (
	FeatureTypeIn   FeatureType = 0x00
	FeatureTypeFan  FeatureType = 0x01
	FeatureTypeTemp FeatureType = 0x02

	SubFeatureTypeFanInput SubFeatureType = 0x0100
	SubFeatureTypeFanMin   SubFeatureType = 0x0101
	SubFeatureTypeFanMax   SubFeatureType = 0x0102

	SubFeatureTypeTempInput SubFeatureType = 0x0200
	SubFeatureTypeTempMax   SubFeatureType = 0x0201
	SubFeatureTypeTempMaxHyst SubFeatureType = 0x0202
	SubFeatureTypeTempMin   SubFeatureType = 0x0203
)

type SubFeature struct {
	Name    string
	Number  int32
	Type    SubFeatureType
	Mapping int32
	Flags   uint32
	path    string
}

func (s SubFeature) GetValue() float64 {
	data, err := os.ReadFile(s.path)
	if err != nil {
		return 0
	}
	v, err := strconv.ParseFloat(strings.TrimSpace(string(data)), 64)
	if err != nil {
		return 0
	}
	if s.Type >= SubFeatureTypeTempInput && s.Type <= SubFeatureTypeTempMin {
		return v / 1000.0
	}
	return v
}

type Feature struct {
	Name   string
	Number int32
	Type   FeatureType
	dir    string
}

func (f Feature) GetSubFeatures() []SubFeature {
	var subs []SubFeature
	add := func(suffix string, t SubFeatureType) {
		p := filepath.Join(f.dir, f.Name+"_"+suffix)
		if _, err := os.Stat(p); err == nil {
			subs = append(subs, SubFeature{Name: f.Name + "_" + suffix, Number: int32(len(subs)), Type: t, path: p})
		}
	}
	switch f.Type {
	case FeatureTypeFan:
		add("input", SubFeatureTypeFanInput)
		add("min", SubFeatureTypeFanMin)
		add("max", SubFeatureTypeFanMax)
	case FeatureTypeTemp:
		add("input", SubFeatureTypeTempInput)
		add("max", SubFeatureTypeTempMax)
		add("min", SubFeatureTypeTempMin)
	}
	return subs
}

func (f Feature) GetLabel() string { return f.Name }

func (f Feature) GetValue() float64 {
	s := f.GetSubFeatures()
	if len(s) == 0 {
		return 0
	}
	return s[0].GetValue()
}

type Bus struct {
	Type int16
	Nr   int16
}

func (b Bus) String() string { return fmt.Sprintf("bus-%d-%d", b.Type, b.Nr) }

type Chip struct {
	Prefix string
	Bus    Bus
	Addr   int32
	Path   string
}

func (c Chip) String() string      { return fmt.Sprintf("%s-%d-%x", c.Prefix, c.Bus.Nr, c.Addr) }
func (c Chip) AdapterName() string { return c.Bus.String() }

var featRe = regexp.MustCompile(`^(fan|temp)([0-9]+)_[a-z_]+$`)

func (c Chip) GetFeatures() []Feature {
	entries, err := os.ReadDir(c.Path)
	if err != nil {
		return nil
	}
	type key struct {
		t FeatureType
		n int
	}
	seen := map[key]bool{}
	var keys []key
	for _, e := range entries {
		m := featRe.FindStringSubmatch(e.Name())
		if m == nil {
			continue
		}
		n, _ := strconv.Atoi(m[2])
		t := FeatureTypeFan
		if m[1] == "temp" {
			t = FeatureTypeTemp
		}
		k := key{t, n}
		if !seen[k] {
			seen[k] = true
			keys = append(keys, k)
		}
	}
	sort.Slice(keys, func(i, j int) bool {
		if keys[i].t != keys[j].t {
			return keys[i].t < keys[j].t
		}
		return keys[i].n < keys[j].n
	})
	var feats []Feature
	for i, k := range keys {
		name := fmt.Sprintf("fan%d", k.n)
		if k.t == FeatureTypeTemp {
			name = fmt.Sprintf("temp%d", k.n)
		}
		feats = append(feats, Feature{Name: name, Number: int32(i), Type: k.t, dir: c.Path})
	}
	return feats
}

func Init()    {}
func Cleanup() {}

func GetDetectedChips() []Chip {
	root := os.Getenv("VERIF_HWMON_ROOT")
	if root == "" {
		return nil
	}
	var names []string
	if data, err := os.ReadFile(filepath.Join(root, "order")); err == nil {
		for _, l := range strings.Split(string(data), "\n") {
			l = strings.TrimSpace(l)
			if l != "" {
				names = append(names, l)
			}
		}
	} else {
		entries, _ := os.ReadDir(root)
		for _, e := range entries {
			if e.IsDir() {
				names = append(names, e.Name())
			}
		}
		sort.Strings(names)
	}
	var chips []Chip
	for i, n := range names {
		dir := filepath.Join(root, n)
		prefix := n
		if data, err := os.ReadFile(filepath.Join(dir, "name")); err == nil {
			prefix = strings.TrimSpace(string(data))
		}
		bus := Bus{Type: 1, Nr: 0}
		addr := int32(0x290 + i)
		if data, err := os.ReadFile(filepath.Join(dir, "bus")); err == nil {
			var t, nr, a int
			if _, err := fmt.Sscanf(string(data), "%d %d %d", &t, &nr, &a); err == nil {
				bus = Bus{Type: int16(t), Nr: int16(nr)}
				addr = int32(a)
			}
		}
		chips = append(chips, Chip{Prefix: prefix, Bus: bus, Addr: addr, Path: dir})
	}
	return chips
}
