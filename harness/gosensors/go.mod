module github.com/md14454/gosensors

go 1.23
