//go:build verif

package verifharness

import (
	"bytes"
	"context"
	"fmt"
	"math/rand"
	"os"
	"path/filepath"
	"regexp"
	"strconv"
	"strings"
	"sync"
	"syscall"
	"testing"
	"testing/synctest"
	"time"
)

// prestoreProc stores RPM curve data and PWM map for the fans of a process-level configuration by
// running the real controllers once in a bubble on the same database (fan ids are the keys).
func prestoreProc(t *testing.T, pc *ProcCfg) {
	synctest.Test(t, func(t *testing.T) {
		null, _ := NewRecorder(os.DevNull)
		defer null.Close()
		cfg := RunCfg{Parallel: true, Dir: pc.Dir}
		for _, f := range pc.Fans {
			if f.Cmd {
				continue // cmd fans store default data on their first start, their pwm map comes from the configuration
			}
			rf := RunFan{ID: f.ID, CurveErrAt: -1, Quant: 32, Theta: 0, Pwm0: 100, Mode0: 2, Rest: [3]string{"ok", "ok", "ok"}}
			rf.Spec = FanSpec{Kind: "hwmon", HasRpm: true, HasMode: true, N: 10, Alg: AlgSpec{T: "direct"}}
			cfg.Fans = append(cfg.Fans, rf)
		}
		if len(cfg.Fans) == 0 {
			return
		}
		h := NewRunHarness(null, cfg)
		ctx, cancel := context.WithCancel(context.Background())
		var mu sync.Mutex
		started := 0
		h.OnEvent = func(n int, fanId, event string) {
			if event == "LoopStarted" {
				mu.Lock()
				started++
				all := started == len(cfg.Fans)
				mu.Unlock()
				if all {
					cancel()
				}
			}
		}
		h.Start(ctx, nil)
		h.Wait()
		h.Close(false)
		cancel()
	})
	// the bubble run used its own register files; remove them
	entries, _ := os.ReadDir(pc.Dir)
	for _, e := range entries {
		if strings.HasPrefix(e.Name(), "hw_") {
			os.RemoveAll(filepath.Join(pc.Dir, e.Name()))
		}
	}
}

type sigStep struct {
	afterMs int
	sig     syscall.Signal
}

// TestDriveC03Proc: the real daemon process on a fake hwmon tree, 1..3 real SIGTERM/SIGINT.
func TestDriveC03Proc(t *testing.T) {
	out := os.Getenv("VERIF_OUT")
	if out == "" {
		t.Skip("VERIF_OUT not set")
	}
	seed := int64(envInt("VERIF_SEED", 1))
	n := envInt("VERIF_N", 2)
	rec, err := NewRecorder(out)
	must(err)
	defer rec.Close()
	r := rand.New(rand.NewSource(seed))
	for i := 0; i < n; i++ {
		runProcScenario(t, rec, r, i)
	}
}

func runProcScenario(t *testing.T, rec *Recorder, r *rand.Rand, idx int) {
	dir := scratchDir("verif.proc.")
	defer os.RemoveAll(dir)
	pc := &ProcCfg{Dir: dir, Parallel: true, Temp: 45000 + r.Intn(30000)}
	nf := 1 + r.Intn(2)
	for k := 0; k < nf; k++ {
		pc.Fans = append(pc.Fans, ProcFan{ID: []string{"f1", "f2"}[k], Chip: []string{"chipa", "chipb"}[k], Channel: 1 + r.Intn(3),
			HasMode: r.Intn(5) > 0, NeverStop: r.Intn(2) == 0, Pwm0: r.Intn(256), Mode0: []int{0, 1, 2, 2, 5}[r.Intn(5)],
			Alg: []string{"direct", "pid"}[r.Intn(2)]})
	}
	// a cmd fan with a slow setPwm script widens the window in which further signals arrive
	// while the fans are being restored
	slow := idx%2 == 1
	if slow {
		k := r.Intn(len(pc.Fans))
		pc.Fans[k].Cmd, pc.Fans[k].HasMode, pc.Fans[k].PwmMap = true, false, true
		pc.Fans[k].SlowMs = 150 + r.Intn(300)
		pc.Fans[k].Alg = "direct"
	}
	prestoreProc(t, pc)
	cfgPath := pc.Materialize()
	// signal schedule
	sigs := []syscall.Signal{syscall.SIGTERM, syscall.SIGINT}
	var sched []sigStep
	early := r.Intn(6) == 0 // first signal during the start-up wait
	ns := 1 + r.Intn(3)
	for k := 0; k < ns; k++ {
		gap := 0
		if k > 0 {
			gap = []int{0, 1, 5, 20, 50, 150}[r.Intn(6)]
			if slow {
				gap = 60 + r.Intn(250)
			}
		}
		sched = append(sched, sigStep{gap, sigs[r.Intn(2)]})
	}
	rec.NextTrace()
	var fansInfo []Ev
	for _, f := range pc.Fans {
		mode := -1
		if f.HasMode {
			mode = f.Mode0
		}
		kind := "hwmon"
		if f.Cmd {
			kind = "cmd"
		}
		fansInfo = append(fansInfo, Ev{"id": f.ID, "kind": kind, "hasMode": f.HasMode, "hasRpm": true, "cfgMap": f.PwmMap,
			"cfgMinMax": false, "neverStop": f.NeverStop, "pwm": f.Pwm0, "mode": mode, "theta": 0, "quant": 1, "cfgStart": false, "rest": []string{"ok", "ok", "ok"},
			"hadData": !f.Cmd, "hadMap": !f.Cmd})
	}
	var ss []Ev
	for _, s := range sched {
		ss = append(ss, Ev{"after": s.afterMs, "sig": int(s.sig)})
	}
	rec.Emit(Ev{"ev": "Begin", "parallel": true, "fans": fansInfo, "newTrace": true, "proc": true,
		"scenario": Ev{"signals": ss, "early": early}})
	tracePath := filepath.Join(dir, "child.ndjson")
	var outb bytes.Buffer
	t0 := time.Now()
	cmd := StartChild("daemon", []string{"-c", cfgPath, "--no-style", "--no-color"}, filepath.Join(dir, "hwmon"), tracePath, &outb)
	if early {
		time.Sleep(time.Duration(300+r.Intn(1500)) * time.Millisecond)
	} else {
		ok := waitFor(tracePath, 15*time.Second, func(evs []Ev) bool { return countEv(evs, "CycleEnd") >= len(pc.Fans)*2 })
		if !ok {
			_ = syscall.Kill(-cmd.Process.Pid, syscall.SIGKILL)
			cmd.Wait()
			t.Fatalf("daemon did not start regulating: %s", outb.String())
		}
		time.Sleep(time.Duration(r.Intn(300)) * time.Millisecond)
	}
	for _, s := range sched {
		time.Sleep(time.Duration(s.afterMs) * time.Millisecond)
		_ = cmd.Process.Signal(s.sig)
	}
	code, signaled, timedOut := waitExit(cmd, 20*time.Second)
	dur := time.Since(t0)
	output := outb.String()
	panicked := strings.Contains(output, "panic:") || strings.Contains(output, "goroutine 1 [")
	// child events, Cancel events placed before the first RestoreBegin
	evs := readChildTrace(tracePath)
	cancelDone := false
	emitCancels := func() {
		if cancelDone {
			return
		}
		cancelDone = true
		for range sched {
			rec.Emit(Ev{"ev": "Cancel", "why": "signal"})
		}
	}
	finalRegs := func(f ProcFan) (int, int) {
		mode := -1
		if f.HasMode {
			mode = readIntFile(pc.RegPath(f, "mode"))
		}
		return readIntFile(pc.RegPath(f, "pwm")), mode
	}
	byID := map[string]ProcFan{}
	for _, f := range pc.Fans {
		byID[f.ID] = f
	}
	for _, e := range evs {
		id, _ := e["fan"].(string)
		f, known := byID[id]
		if !known {
			continue
		}
		a, _ := e["a"].([]any)
		switch e["ev"] {
		case "Captured":
			// the registers as the harness created them (the original state of the device), not the controller's claim
			e["pwm"], e["mode"] = f.Pwm0, -1
			if f.HasMode {
				e["mode"] = f.Mode0
			}
		case "CycleEnd":
			e["pwm"] = num(a[0])
			e["mode"] = -1
			if f.HasMode {
				e["mode"] = 1
			}
		case "RestoreBegin":
			emitCancels()
		case "RestoreEnd":
			e["pwm"], e["mode"] = finalRegs(f)
		}
		delete(e, "cseq")
		rec.Emit(e)
	}
	emitCancels()
	var regs []Ev
	for _, f := range pc.Fans {
		p, m := finalRegs(f)
		regs = append(regs, Ev{"id": f.ID, "pwm": p, "mode": m, "hasData": true, "hasMap": true})
	}
	crashed := code != 0 || panicked || signaled
	tail := output
	if len(tail) > 1500 {
		tail = tail[len(tail)-1500:]
	}
	fin := Ev{"ev": "Final", "regs": regs, "vt": int(dur / time.Millisecond), "crashed": crashed, "exit": code,
		"panic": panicked, "timedOut": timedOut}
	if crashed {
		fin["output"] = tail
	}
	rec.Emit(fin)
	rec.Flush()
}

// TestDriveCli: growth beyond the listed properties - the direct fan commands of the command line (`fan2go fan --id F
// speed [v]`, `mode [m]`, `rpm`), each a real process (cmd.Execute) on a fake hwmon tree and a file fan; registers before
// and after, exit status and the printed value are recorded and validated against spec/Cli.tla.
func TestDriveCli(t *testing.T) {
	out := os.Getenv("VERIF_OUT")
	if out == "" {
		t.Skip("VERIF_OUT not set")
	}
	seed := int64(envInt("VERIF_SEED", 1))
	n := envInt("VERIF_N", 40)
	rec, err := NewRecorder(out)
	must(err)
	defer rec.Close()
	r := rand.New(rand.NewSource(seed))
	dir := scratchDir("verif.cli.")
	defer os.RemoveAll(dir)
	must(os.Chmod(dir, 0755))
	root := filepath.Join(dir, "hwmon")
	chip := filepath.Join(root, "chipa")
	must(os.MkdirAll(chip, 0755))
	must(os.WriteFile(filepath.Join(chip, "name"), []byte("chipa\n"), 0644))
	reg := map[string]string{
		"h.pwm": filepath.Join(chip, "pwm1"), "h.mode": filepath.Join(chip, "pwm1_enable"), "h.rpm": filepath.Join(chip, "fan1_input"),
		"f.pwm": filepath.Join(dir, "file_pwm"), "f.rpm": filepath.Join(dir, "file_rpm"),
	}
	writeInt(reg["h.pwm"], 100)
	writeInt(reg["h.mode"], 2)
	writeInt(reg["h.rpm"], 1200)
	writeInt(reg["f.pwm"], 50)
	writeInt(reg["f.rpm"], 800)
	writeInt(filepath.Join(dir, "temp"), 50000)
	// sensors of the three kinds for `fan2go sensor --id S`
	sreg := map[string]string{"s1": filepath.Join(dir, "temp"), "s2": filepath.Join(dir, "temp_cmd"), "s3": filepath.Join(chip, "temp1_input")}
	writeInt(sreg["s2"], 41000)
	writeInt(sreg["s3"], 37000)
	writeScript(filepath.Join(dir, "sensor.sh"), "cat "+sreg["s2"]+"\n")
	fileHasRpm := r.Intn(2) == 0
	rpmLine := ""
	if fileHasRpm {
		rpmLine = "      rpmPath: " + reg["f.rpm"] + "\n"
	}
	cfgPath := filepath.Join(dir, "fan2go.yaml")
	yaml := fmt.Sprintf("dbPath: %s\nsensors:\n  - id: s1\n    file:\n      path: %s\n  - id: s2\n    cmd:\n      exec: %s\n  - id: s3\n    hwmon:\n      platform: chipa\n      index: 1\ncurves:\n  - id: c1\n    linear:\n      sensor: s1\n      min: 40\n      max: 80\nfans:\n  - id: h\n    curve: c1\n    hwmon:\n      platform: chipa\n      index: 1\n  - id: f\n    curve: c1\n    file:\n      path: %s\n%s",
		filepath.Join(dir, "cli.db"), filepath.Join(dir, "temp"), filepath.Join(dir, "sensor.sh"), reg["f.pwm"], rpmLine)
	must(os.WriteFile(cfgPath, []byte(yaml), 0644))
	regs := func(fan string) Ev {
		if fan == "h" {
			return Ev{"kind": "hwmon", "pwm": readIntFile(reg["h.pwm"]), "mode": readIntFile(reg["h.mode"]), "rpm": readIntFile(reg["h.rpm"]), "hasRpm": true}
		}
		return Ev{"kind": "file", "pwm": readIntFile(reg["f.pwm"]), "mode": 1, "rpm": readIntFile(reg["f.rpm"]), "hasRpm": fileHasRpm}
	}
	numRe := regexp.MustCompile(`(-?\d+)\)?\s*$`)
	for i := 0; i < n; i++ {
		fan := []string{"h", "f"}[r.Intn(2)]
		var args []string
		ev := Ev{"ev": "Cli", "fan": fan, "v": 0, "arg": ""}
		if r.Intn(4) == 0 {
			// a sensor command: the value changes between commands, now and then the backend is gone
			sid := []string{"s1", "s2", "s3"}[r.Intn(3)]
			v := []int{0, 1, 999, 25000, 54321, 99999, 120000}[r.Intn(7)]
			present := r.Intn(5) > 0
			if present {
				writeInt(sreg[sid], v)
			} else {
				_ = os.Remove(sreg[sid])
			}
			sev := Ev{"ev": "Cli", "fan": sid, "v": 0, "arg": "", "cmd": "sensorGet", "before": Ev{"kind": "sensor", "value": v, "present": present}}
			var outb bytes.Buffer
			cmd := StartChild("cli", []string{"sensor", "--id", sid, "-c", cfgPath}, root, filepath.Join(dir, "cli.trace"), &outb)
			code, _, timedOut := waitExit(cmd, 20*time.Second)
			if timedOut {
				code = -9
			}
			val := -1
			if m := numRe.FindStringSubmatch(strings.TrimSpace(outb.String())); m != nil && code == 0 {
				val, _ = strconv.Atoi(m[1])
			}
			// (the device is what it was: nothing but the sensor's own file exists to be changed)
			after := Ev{"kind": "sensor", "value": v, "present": present}
			if present && readIntFile(sreg[sid]) != v {
				after["value"] = readIntFile(sreg[sid])
			}
			sev["after"], sev["exit"], sev["value"], sev["out"] = after, code, val, tailStr(outb.String(), 120)
			rec.Emit(sev)
			writeInt(sreg[sid], 40000)
			continue
		}
		switch r.Intn(6) {
		case 0:
			ev["cmd"], args = "speedGet", []string{"speed"}
		case 1, 2:
			v := []int{0, 1, 77, 128, 254, 255}[r.Intn(6)]
			ev["cmd"], ev["v"], args = "speedSet", v, []string{"speed", strconv.Itoa(v)}
		case 3:
			ev["cmd"], args = "modeGet", []string{"mode"}
		case 4:
			a := []string{"0", "1", "2", "disabled", "pwm", "auto", "Auto", "turbo", "3", "7"}[r.Intn(10)]
			ev["cmd"], ev["arg"], args = "modeSet", a, []string{"mode", a}
		default:
			ev["cmd"], args = "rpmGet", []string{"rpm"}
		}
		if r.Intn(3) == 0 { // the device changes between two commands (somebody else uses it)
			writeInt(reg[fan+".rpm"], 300+r.Intn(3000))
			writeInt(reg[fan+".pwm"], r.Intn(256))
		}
		ev["before"] = regs(fan)
		var outb bytes.Buffer
		cmd := StartChild("cli", append([]string{"fan", "--id", fan, "-c", cfgPath}, args...), root, filepath.Join(dir, "cli.trace"), &outb)
		code, _, timedOut := waitExit(cmd, 20*time.Second)
		ev["after"] = regs(fan)
		ev["exit"] = code
		if timedOut {
			ev["exit"] = -9
		}
		val := -1
		if m := numRe.FindStringSubmatch(strings.TrimSpace(outb.String())); m != nil && code == 0 {
			val, _ = strconv.Atoi(m[1])
		}
		if strings.Contains(outb.String(), "N/A") {
			val = -1
		}
		ev["value"] = val
		ev["out"] = tailStr(outb.String(), 120)
		rec.Emit(ev)
	}
}

// TestDriveC16Proc: C16 at process level - the real daemon (configuration file -> loader -> start-up code -> controllers)
// with runFanInitializationInParallel: false and fans that all need analysis (nothing stored): two hwmon fans, or one
// hwmon fan and a command fan whose PWM map must be swept. The analysis intervals come from the child's hook events.
func TestDriveC16Proc(t *testing.T) {
	out := os.Getenv("VERIF_OUT")
	if out == "" {
		t.Skip("VERIF_OUT not set")
	}
	seed := int64(envInt("VERIF_SEED", 1))
	n := envInt("VERIF_N", 1)
	rec, err := NewRecorder(out)
	must(err)
	defer rec.Close()
	for i := 0; i < n; i++ {
		dir := scratchDir("verif.c16p.")
		pc := &ProcCfg{Dir: dir, Parallel: false, Temp: 60000}
		variant := int(seed+int64(i)) % 2
		pc.Fans = append(pc.Fans, ProcFan{ID: "f1", Chip: "chipa", Channel: 1, HasMode: true, Pwm0: 90, Mode0: 2, Alg: "direct"})
		if variant == 0 {
			pc.Fans = append(pc.Fans, ProcFan{ID: "f2", Chip: "chipb", Channel: 2, HasMode: true, Pwm0: 120, Mode0: 2, Alg: "direct"})
		} else {
			pc.Fans = append(pc.Fans, ProcFan{ID: "f2", Cmd: true, Pwm0: 77, Alg: "direct"})
		}
		cfgPath := pc.Materialize()
		rec.NextTrace()
		var fansInfo []Ev
		for _, f := range pc.Fans {
			mode, kind := -1, "hwmon"
			if f.HasMode {
				mode = f.Mode0
			}
			if f.Cmd {
				kind = "cmd"
			}
			fansInfo = append(fansInfo, Ev{"id": f.ID, "kind": kind, "hasMode": f.HasMode, "hasRpm": true, "cfgMap": false,
				"cfgMinMax": false, "neverStop": false, "pwm": f.Pwm0, "mode": mode, "theta": -1, "quant": 1, "cfgStart": false, "rest": []string{"ok", "ok", "ok"},
				"hadData": false, "hadMap": false})
		}
		rec.Emit(Ev{"ev": "Begin", "parallel": false, "fans": fansInfo, "newTrace": true, "proc": true, "scenario": Ev{"c16proc": true, "variant": variant}})
		tracePath := filepath.Join(dir, "child.ndjson")
		var outb bytes.Buffer
		t0 := time.Now()
		cmd := StartChild("daemon", []string{"-c", cfgPath, "--no-style", "--no-color"}, filepath.Join(dir, "hwmon"), tracePath, &outb)
		ok := waitFor(tracePath, 150*time.Second, func(evs []Ev) bool { return countEv(evs, "LoopStarted") >= len(pc.Fans) })
		_ = cmd.Process.Signal(syscall.SIGTERM)
		wait := 30 * time.Second
		if !ok {
			// the analyses did not finish in time (a running analysis is not interrupted by the signal): what was observed
			// up to here is judged, the process is put away
			wait = 3 * time.Second
			t.Logf("the fans were not analysed within 150 s: %s", tailStr(outb.String(), 1500))
		}
		code, signaled, timedOut := waitExit(cmd, wait)
		byID := map[string]ProcFan{}
		for _, f := range pc.Fans {
			byID[f.ID] = f
		}
		cancelled := false
		for _, e := range readChildTrace(tracePath) {
			id, _ := e["fan"].(string)
			f, known := byID[id]
			if !known {
				continue
			}
			a, _ := e["a"].([]any)
			switch e["ev"] {
			case "Captured":
				e["pwm"], e["mode"] = f.Pwm0, -1
				if f.HasMode {
					e["mode"] = f.Mode0
				}
			case "CycleEnd":
				e["pwm"], e["mode"] = num(a[0]), -1
				if f.HasMode {
					e["mode"] = 1
				}
			case "RestoreBegin":
				if !cancelled {
					cancelled = true
					rec.Emit(Ev{"ev": "Cancel", "why": "signal"})
				}
			case "RestoreEnd":
				e["pwm"], e["mode"] = readRegs(pc, f)
			}
			delete(e, "cseq")
			rec.Emit(e)
		}
		if !cancelled {
			rec.Emit(Ev{"ev": "Cancel", "why": "signal"})
		}
		var regs []Ev
		for _, f := range pc.Fans {
			p, m := readRegs(pc, f)
			regs = append(regs, Ev{"id": f.ID, "pwm": p, "mode": m, "hasData": true, "hasMap": true})
		}
		output := outb.String()
		panicked := strings.Contains(output, "panic:") || strings.Contains(output, "goroutine 1 [")
		rec.Emit(Ev{"ev": "Final", "regs": regs, "vt": int(time.Since(t0) / time.Millisecond), "crashed": code != 0 || panicked || signaled, "exit": code,
			"panic": panicked, "timedOut": timedOut})
		rec.Flush()
		os.RemoveAll(dir)
	}
}

func readRegs(pc *ProcCfg, f ProcFan) (int, int) {
	mode := -1
	if f.HasMode {
		mode = readIntFile(pc.RegPath(f, "mode"))
	}
	if f.Cmd {
		return readIntFile(filepath.Join(pc.Dir, "cmd_"+f.ID, "pwm")), mode
	}
	return readIntFile(pc.RegPath(f, "pwm")), mode
}
