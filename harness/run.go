//go:build verif

package verifharness

import (
	"bytes"
	"context"
	"errors"
	"fmt"
	"os"
	"path/filepath"
	"strconv"
	"strings"
	"sync"
	"sync/atomic"
	"syscall"
	"time"

	"github.com/markusressel/fan2go/internal/configuration"
	"github.com/markusressel/fan2go/internal/controller"
	"github.com/markusressel/fan2go/internal/curves"
	"github.com/markusressel/fan2go/internal/fans"
	"github.com/markusressel/fan2go/internal/persistence"
)

// ---------------------------------------------------------------------------------------------
// RunHarness: the real controller.Run of one or several fans over one interposed tree and one
// bbolt database ("one fan2go process" of Daemon.tla), normally inside a synctest bubble.
// Every hook event of the controller and every register write is recorded in linearization
// order (recorder mutex); the harness adds Start / Cancel / RunReturn / Final events.
// ---------------------------------------------------------------------------------------------

type RunFan struct {
	ID    string
	Spec  FanSpec
	Theta int // plant: the fan turns iff pwm > Theta
	Quant int // >1: the pwm register quantises to multiples of Quant
	// QMode: how the register treats a written value - "" / "floor": rounds down to a multiple of Quant (255 stays 255);
	// "ceil": rounds up to the next multiple of Quant (capped at 255); "scale": an exact register behind a configured
	// pwmMap v -> v*100/255 (a device with a range of 0..100) - with the last two the lowest REQUEST that reaches a device
	// value differs from that value
	QMode      string
	Pwm0       int
	Mode0      int
	StartDelay time.Duration // Run of this fan starts this much later
	// driver behaviour for the three writes of the restore sequence: "ok" | "fail" | "ign"
	Rest [3]string
	// CurveErrAt >= 0: the curve evaluation fails from this evaluation on
	CurveErrAt int
	// CurveID: use this registered (real) curve instead of the harness curve
	CurveID string
}

type RunCfg struct {
	Fans             []RunFan
	Parallel         bool
	Dir              string // scratch dir (database lives here); reused across starts
	FanResponseDelay int
	TickMs           int
	RpmPollMs        int
	Window           int
	CurveValue       func(n int) int // curve value at the n-th evaluation
	// Setup, when set, runs after the Env exists and before the fans and controllers are
	// created (register sensors and real curves here)
	Setup func(env *Env)
}

type runFanState struct {
	rf        RunFan
	px        string
	fan       fans.Fan
	ctl       controller.FanController
	curve     *FuncCurve
	restoring bool
	restStep  int
}

type RunHarness struct {
	Env        *Env
	Rec        *Recorder
	Cfg        RunCfg
	mu         sync.Mutex
	fs         map[string]*runFanState
	ord        []string
	wg         sync.WaitGroup
	t0         time.Time
	Errs       map[string]error
	armOnWrite map[string]armedFault
	// OnEvent, when set, is called (outside all locks) after every hook event with its index
	OnEvent func(n int, fanId, event string)
	nev     int
	lastW   map[string]time.Time
	rfault  map[string]int
	rskip   map[string]int
	wfault  map[string]int
	// Quiet: hook events that are not recorded (long runs whose monitor does not use them)
	Quiet map[string]bool
}

// LastWrite returns the time of the latest write to a register (zero time if never written).
func (h *RunHarness) LastWrite(name string) time.Time {
	h.mu.Lock()
	defer h.mu.Unlock()
	return h.lastW[name]
}

// FuncCurve evaluates to a function of the number of evaluations so far.
type FuncCurve struct {
	ID    string
	Fn    func(n int) int
	ErrAt int
	mu    sync.Mutex
	n     int
	cur   int
}

func (c *FuncCurve) GetId() string { return c.ID }
func (c *FuncCurve) Evaluate() (int, error) {
	c.mu.Lock()
	defer c.mu.Unlock()
	c.n++
	if c.ErrAt >= 0 && c.n > c.ErrAt {
		return c.cur, errors.New("injected curve evaluation error")
	}
	c.cur = c.Fn(c.n)
	return c.cur, nil
}
func (c *FuncCurve) CurrentValue() int {
	c.mu.Lock()
	defer c.mu.Unlock()
	return c.cur
}

func NewRunHarness(rec *Recorder, cfg RunCfg) *RunHarness {
	if cfg.Dir == "" {
		cfg.Dir = scratchDir("verif.run.")
	}
	if cfg.TickMs == 0 {
		cfg.TickMs = 200
	}
	if cfg.RpmPollMs == 0 {
		cfg.RpmPollMs = 1000
	}
	if cfg.Window == 0 {
		cfg.Window = 10
	}
	if cfg.CurveValue == nil {
		cfg.CurveValue = func(n int) int { return 128 }
	}
	// the full-speed write of the restore sequence is refused only where the property can still be met: the fan has a
	// control mode, was not in manual mode originally and the device accepts the mode write (a fan for which nothing at
	// all can be done is excluded as vacuous; the all-refusing device of the C09 restore driver is left as it is)
	cfg.Fans = append([]RunFan{}, cfg.Fans...)
	for i := range cfg.Fans {
		rf := &cfg.Fans[i]
		if rf.Rest[2] != "ok" && rf.Rest != [3]string{"fail", "fail", "fail"} && !(rf.Spec.HasMode && rf.Mode0 != 1 && rf.Rest[1] == "ok") {
			rf.Rest[2] = "ok"
		}
	}
	env := NewEnv(cfg.Dir)
	env.Rec = rec
	env.RecIO = false
	InstallEnv(env)
	cc := &configuration.CurrentConfig
	cc.DbPath = filepath.Join(cfg.Dir, "fan2go.db")
	cc.RunFanInitializationInParallel = cfg.Parallel
	cc.MaxRpmDiffForSettledFan = 20
	cc.FanResponseDelay = cfg.FanResponseDelay
	cc.TempSensorPollingRate = 200 * time.Millisecond
	cc.TempRollingWindowSize = 37 // (never equal to the RPM window: the two options are independent)
	cc.RpmPollingRate = time.Duration(cfg.RpmPollMs) * time.Millisecond
	cc.RpmRollingWindowSize = cfg.Window
	cc.ControllerAdjustmentTickRate = time.Duration(cfg.TickMs) * time.Millisecond
	h := &RunHarness{Env: env, Rec: rec, Cfg: cfg, fs: map[string]*runFanState{}, Errs: map[string]error{}}
	pers := persistence.NewPersistence(cc.DbPath)
	if cfg.Setup != nil {
		cfg.Setup(env)
	}
	for _, rf := range cfg.Fans {
		px := rf.ID + "."
		curve := &FuncCurve{ID: "curve_" + rf.ID, Fn: cfg.CurveValue, ErrAt: rf.CurveErrAt}
		curves.RegisterSpeedCurve(curve)
		curveID := curve.ID
		if rf.CurveID != "" {
			curveID = rf.CurveID
		}
		spec := rf.Spec
		spec.NoAttach = true
		fan := BuildFanP(env, spec, rf.ID, curveID, rf.Pwm0, rf.Mode0, px)
		fans.RegisterFan(fan)
		if rf.Quant > 1 && rf.QMode != "scale" {
			q := rf.Quant
			mode := rf.QMode
			// quantising register; the top level is full speed (255)
			qf := func(v int) int {
				switch mode {
				case "ceil":
					if v <= 0 {
						return 0
					}
					if w := ((v + q - 1) / q) * q; w < 255 {
						return w
					}
					return 255
				}
				if v >= 255 {
					return 255
				}
				return (v / q) * q
			}
			env.Quant[px+"pwm"] = qf
			env.Set(px+"pwm", qf(rf.Pwm0))
		}
		if spec.HasRpm && spec.Kind == "cmd" {
			// the plant of a command fan lives in its getrpm script (see BuildFanP)
			must(os.WriteFile(filepath.Join(env.Dir, "cmd_"+rf.ID, "theta"), []byte(strconv.Itoa(rf.Theta)), 0644))
		}
		if spec.HasRpm && spec.Kind != "cmd" {
			theta := rf.Theta
			env.Computed[px+"rpm"] = func(e *Env) int {
				p := e.Raw(px + "pwm")
				if p > theta {
					return 500 + 10*p
				}
				return 0
			}
		}
		ctl := controller.NewFanController(pers, fan, buildLoop(spec.Alg), time.Duration(cfg.TickMs)*time.Millisecond)
		h.fs[rf.ID] = &runFanState{rf: rf, px: px, fan: fan, ctl: ctl, curve: curve}
		h.ord = append(h.ord, rf.ID)
	}
	env.OnWrite = h.onWrite
	env.OnRead = h.onRead
	controller.VerifTrace = h.onTrace
	return h
}

// ReadFault makes the next n reads of a register fail (garbage=false) or return garbage, which for
// an integer file means a parse error (garbage=true); both surface as a read error.
func (h *RunHarness) ReadFault(name string, n int) { h.ReadFaultSkip(name, n, 0) }

// ReadFaultSkip: the next `skip` reads of the register succeed, the `n` reads after them fail
// (e.g. skip=1: the feature probe succeeds, the read that follows fails).
func (h *RunHarness) ReadFaultSkip(name string, n, skip int) {
	h.mu.Lock()
	if h.rfault == nil {
		h.rfault = map[string]int{}
		h.rskip = map[string]int{}
	}
	h.rfault[name] = n
	h.rskip[name] = skip
	h.mu.Unlock()
}

// ClearFaults withdraws the pending read / write faults of all registers with the given name prefix.
func (h *RunHarness) ClearFaults(prefix string) {
	h.mu.Lock()
	for k := range h.rfault {
		if strings.HasPrefix(k, prefix) {
			delete(h.rfault, k)
			delete(h.rskip, k)
		}
	}
	for k := range h.wfault {
		if strings.HasPrefix(k, prefix) {
			delete(h.wfault, k)
		}
	}
	h.mu.Unlock()
}

// WriteFault makes the next n writes of a register fail.
func (h *RunHarness) WriteFault(name string, n int) {
	h.mu.Lock()
	if h.wfault == nil {
		h.wfault = map[string]int{}
	}
	h.wfault[name] = n
	h.mu.Unlock()
}

// ReadFaultOnWrite: from the next write of at least minVal to register wname on, the next n reads of register rname fail.
func (h *RunHarness) ReadFaultOnWrite(rname string, n int, wname string, minVal int) {
	h.mu.Lock()
	if h.armOnWrite == nil {
		h.armOnWrite = map[string]armedFault{}
	}
	h.armOnWrite[wname] = armedFault{rname, n, minVal}
	h.mu.Unlock()
}

type armedFault struct {
	rname  string
	n      int
	minVal int
}

func (h *RunHarness) onRead(e *Env, name string) (int, error, bool) {
	h.mu.Lock()
	n := h.rfault[name]
	if n > 0 && h.rskip[name] > 0 {
		h.rskip[name]--
		n = 0
	} else if n > 0 {
		h.rfault[name] = n - 1
	}
	h.mu.Unlock()
	if n > 0 {
		h.Rec.Emit(Ev{"ev": "Fault", "op": "r", "reg": name})
		return 0, realisticErr("open", name, n), true
	}
	return 0, nil, false
}

// realisticErr: what a failing sysfs / file access really returns - a *PathError around an errno (which one varies:
// the attribute is gone for a moment, the bus does not answer, the driver is busy ...)
var errnoCounter atomic.Int64

func realisticErr(op, name string, k int) error {
	errnos := []syscall.Errno{syscall.ENOENT, syscall.EIO, syscall.ENODATA, syscall.EBUSY, syscall.ENODEV, syscall.EAGAIN, syscall.ENXIO, syscall.EACCES}
	_ = k
	return &os.PathError{Op: op, Path: "/sys/class/hwmon/hwmonX/" + name, Err: errnos[int(errnoCounter.Add(1)-1)%len(errnos)]}
}

// onWrite is called under the Env mutex for every register write: it logs the write and applies
// the scheduled driver behaviour to the writes of the restore sequence.
func (h *RunHarness) onWrite(e *Env, name string, val int) (error, bool, bool) {
	h.mu.Lock()
	if h.lastW == nil {
		h.lastW = map[string]time.Time{}
	}
	h.lastW[name] = time.Now()
	if af, ok := h.armOnWrite[name]; ok && val >= af.minVal {
		delete(h.armOnWrite, name)
		if h.rfault == nil {
			h.rfault = map[string]int{}
			h.rskip = map[string]int{}
		}
		h.rfault[af.rname] = af.n
		h.rskip[af.rname] = 0
	}
	var st *runFanState
	kind := ""
	for _, s := range h.fs {
		if name == s.px+"pwm" {
			st, kind = s, "pwm"
		} else if name == s.px+"mode" {
			st, kind = s, "mode"
		}
	}
	outcome := "ok"
	step := 0
	if h.wfault[name] > 0 {
		h.wfault[name]--
		outcome = "fail"
	}
	if st != nil && st.restoring {
		if kind == "mode" {
			step = 2
		} else if st.restStep == 0 {
			step = 1
		} else {
			step = 3
		}
		st.restStep = step
		if o := st.rf.Rest[step-1]; o != "" {
			outcome = o
		}
	}
	h.mu.Unlock()
	if st == nil {
		return nil, false, false
	}
	eff := val
	if q, ok := e.Quant[name]; ok {
		eff = q(val)
	}
	ev := Ev{"ev": "W", "fan": st.rf.ID, "reg": kind, "val": val, "eff": eff, "o": outcome, "rstep": step}
	h.Rec.Emit(ev)
	switch outcome {
	case "fail":
		return realisticErr("write", name, val), false, true
	case "ign":
		return nil, true, true
	}
	return nil, false, true
}

func (h *RunHarness) onTrace(fanId string, event string, args ...int) {
	h.mu.Lock()
	st := h.fs[fanId]
	if st != nil {
		if event == "RestoreBegin" {
			st.restoring = true
			st.restStep = 0
		}
		if event == "RestoreEnd" {
			st.restoring = false
		}
	}
	h.mu.Unlock()
	if args == nil {
		args = []int{}
	}
	ev := Ev{"ev": event, "fan": fanId, "a": args, "vt": h.vt()}
	if st != nil && event == "RpmEnd" && st.rf.Spec.HasRpm {
		if _, ok := h.Env.paths[st.px+"rpm"]; ok {
			ev["rpm"] = h.Env.Get(st.px + "rpm") // what the plant reports right now (the reading the monitor just took)
		}
	}
	if st != nil && (event == "RestoreEnd" || event == "CycleEnd" || event == "Captured") {
		ev["pwm"] = h.Env.Get(st.px + "pwm")
		ev["mode"] = h.modeOf(st)
	}
	if !h.Quiet[event] {
		h.Rec.Emit(ev)
	}
	if h.OnEvent != nil {
		h.mu.Lock()
		h.nev++
		n := h.nev
		h.mu.Unlock()
		h.OnEvent(n, fanId, event)
	}
}

func (h *RunHarness) modeOf(st *runFanState) int {
	if st.rf.Spec.HasMode {
		return h.Env.Get(st.px + "mode")
	}
	return -1
}

func (h *RunHarness) vt() int { return int(time.Since(h.t0) / time.Millisecond) }

func (h *RunHarness) fanInfo() []Ev {
	var out []Ev
	for _, id := range h.ord {
		st := h.fs[id]
		sp := st.rf.Spec
		out = append(out, Ev{"id": id, "kind": sp.Kind, "hasMode": sp.HasMode, "hasRpm": sp.HasRpm,
			"cfgMap": sp.CfgMap != nil, "cfgMinMax": sp.CfgMin != nil && sp.CfgMax != nil, "neverStop": sp.NeverStop,
			"pwm": h.Env.Get(st.px + "pwm"), "mode": h.modeOf(st), "theta": st.rf.Theta,
			"rest": st.rf.Rest[:], "hadData": h.hasData(st), "hadMap": h.hasMap(st), "n": h.Cfg.Window,
			"min": st.fan.GetMinPwm(), "max": st.fan.GetMaxPwm(), "stallOnly": st.rf.CurveErrAt < 0, "rpmPollMs": h.Cfg.RpmPollMs, "algT": sp.Alg.T, "quant": st.rf.Quant, "qmode": qmodeOf(st.rf), "hasPwm": !(sp.Kind == "cmd" && sp.NoGetPwm),
			"cfgStart": sp.CfgStart != nil})
	}
	return out
}

func (h *RunHarness) hasData(st *runFanState) bool {
	p := persistence.NewPersistence(configuration.CurrentConfig.DbPath)
	d, err := p.LoadFanPwmData(st.fan)
	return err == nil && d != nil
}

func (h *RunHarness) hasMap(st *runFanState) bool {
	p := persistence.NewPersistence(configuration.CurrentConfig.DbPath)
	m, err := p.LoadFanPwmMap(st.rf.ID)
	return err == nil && m != nil
}

// Start emits the Begin event and launches Run for every fan.
func (h *RunHarness) Start(ctx context.Context, extra Ev) {
	h.t0 = time.Now()
	_ = os.MkdirAll(h.Cfg.Dir, 0755)
	ev := Ev{"ev": "Begin", "parallel": h.Cfg.Parallel, "fans": h.fanInfo(), "newTrace": true}
	for k, v := range extra {
		ev[k] = v
	}
	h.Rec.Emit(ev)
	for _, id := range h.ord {
		st := h.fs[id]
		h.wg.Add(1)
		go func() {
			defer h.wg.Done()
			if st.rf.StartDelay > 0 {
				time.Sleep(st.rf.StartDelay)
			}
			h.Rec.Emit(Ev{"ev": "RunStart", "fan": st.rf.ID, "vt": h.vt()})
			err := st.ctl.Run(ctx)
			h.mu.Lock()
			h.Errs[st.rf.ID] = err
			h.mu.Unlock()
			h.Rec.Emit(Ev{"ev": "RunReturn", "fan": st.rf.ID, "err": err != nil, "msg": fmtErr(err), "vt": h.vt()})
		}()
	}
}

func (h *RunHarness) Wait() { h.wg.Wait() }

// Returned: number of controllers whose Run has returned so far
func (h *RunHarness) Returned() int {
	h.mu.Lock()
	defer h.mu.Unlock()
	return len(h.Errs)
}

func (h *RunHarness) Final() {
	var regs []Ev
	for _, id := range h.ord {
		st := h.fs[id]
		regs = append(regs, Ev{"id": id, "pwm": h.Env.Get(st.px + "pwm"), "mode": h.modeOf(st),
			"hasData": h.hasData(st), "hasMap": h.hasMap(st)})
	}
	h.Rec.Emit(Ev{"ev": "Final", "regs": regs, "vt": h.vt(), "crashed": false})
}

func (h *RunHarness) Close(removeDir bool) {
	controller.VerifTrace = nil
	InstallEnv(nil)
	if removeDir {
		_ = os.RemoveAll(h.Cfg.Dir)
	}
}

// Cli emulates `fan2go fan reset` (init=false) or `fan2go fan init` (init=true) for one fan between
// two runs: both commands delete the fan's stored entries, init then runs the initialization
// sequence (cmd/fan/reset.go, cmd/fan/init.go).
func (h *RunHarness) Cli(id string, init bool) error {
	st := h.fs[id]
	p := persistence.NewPersistence(configuration.CurrentConfig.DbPath)
	if err := p.DeleteFanPwmData(st.fan); err != nil {
		return err
	}
	if err := p.DeleteFanPwmMap(id); err != nil {
		return err
	}
	name := "CliReset"
	var err error
	if init {
		name = "CliInit"
		c := controller.NewFanController(p, st.fan, buildLoop(AlgSpec{T: "direct"}), 200*time.Millisecond)
		controller.VerifTrace = nil
		err = c.RunInitializationSequence()
		controller.VerifTrace = h.onTrace
	}
	h.Rec.Emit(Ev{"ev": name, "fan": id, "hasData": h.hasData(st), "hasMap": h.hasMap(st), "err": err != nil})
	return err
}

// CliReset runs the real `fan2go fan --id <id> reset` in a child process (cmd.Execute) on a
// configuration file that names the same database and the same fan ids.
func (h *RunHarness) CliReset(id string) error {
	var b strings.Builder
	fmt.Fprintf(&b, "dbPath: %s\nfans:\n", configuration.CurrentConfig.DbPath)
	tmp := filepath.Join(h.Cfg.Dir, "cli_tmp")
	_ = os.WriteFile(tmp, []byte("100"), 0644)
	for _, fid := range h.ord {
		fmt.Fprintf(&b, "  - id: %s\n    curve: cli_c\n    file:\n      path: %s\n", fid, tmp)
	}
	fmt.Fprintf(&b, "sensors:\n  - id: cli_s\n    file:\n      path: %s\ncurves:\n  - id: cli_c\n    linear:\n      sensor: cli_s\n      min: 40\n      max: 80\n", tmp)
	cfgPath := filepath.Join(h.Cfg.Dir, "cli.yaml")
	if err := os.WriteFile(cfgPath, []byte(b.String()), 0644); err != nil {
		return err
	}
	var out bytes.Buffer
	cmd := StartChild("cli", []string{"fan", "--id", id, "-c", cfgPath, "reset"}, filepath.Join(h.Cfg.Dir, "nohwmon"), filepath.Join(h.Cfg.Dir, "cli.trace"), &out)
	code, _, timedOut := waitExit(cmd, 30*time.Second)
	st := h.fs[id]
	var err error
	if code != 0 || timedOut {
		err = fmt.Errorf("fan reset exited %d: %s", code, out.String())
	}
	h.Rec.Emit(Ev{"ev": "CliReset", "fan": id, "hasData": h.hasData(st), "hasMap": h.hasMap(st), "err": err != nil, "real": true})
	return err
}

// Reg returns a register of a fan.
func (h *RunHarness) Reg(id, reg string) int { return h.Env.Get(h.fs[id].px + reg) }

// Poke writes a register from outside fan2go.
func (h *RunHarness) Poke(id, reg string, v int) {
	h.Env.Set(h.fs[id].px+reg, v)
	h.Rec.Emit(Ev{"ev": "Poke3", "fan": id, "reg": reg, "val": v})
}

// Ctl returns the controller of a fan.
func (h *RunHarness) Ctl(id string) *controller.DefaultFanController {
	return h.fs[id].ctl.(*controller.DefaultFanController)
}

func qmodeOf(rf RunFan) string {
	if rf.QMode == "" {
		return "floor"
	}
	return rf.QMode
}
