//go:build verif

package verifharness

import (
	"fmt"
	"os"
	"path/filepath"
	"strconv"
	"strings"
	"sync/atomic"
	"time"

	"github.com/markusressel/fan2go/internal/configuration"
	"github.com/markusressel/fan2go/internal/control_loop"
	"github.com/markusressel/fan2go/internal/controller"
	"github.com/markusressel/fan2go/internal/curves"
	"github.com/markusressel/fan2go/internal/fans"
	"github.com/markusressel/fan2go/internal/persistence"
	"github.com/markusressel/fan2go/internal/statistics"
	"github.com/prometheus/client_golang/prometheus"
)

// ---------------------------------------------------------------------------------------------
// Fan construction
// ---------------------------------------------------------------------------------------------

type AlgSpec struct {
	T  string  `json:"t"` // "direct" | "rate" | "pid"
	M  int     `json:"m"` // maxPwmChangePerCycle (rate)
	P  float64 `json:"-"` // pid gains
	I  float64 `json:"-"`
	D  float64 `json:"-"`
	Dt int     `json:"dt"` // tick in ms used by the driver (pid conformance), 0 = not fixed
	// Default is true when the pid gains are fan2go's defaults (exact model available)
	Default bool `json:"def"`
}

type FanSpec struct {
	Kind      string
	NeverStop bool
	HasRpm    bool
	HasMode   bool
	CfgMin    *int // minPwm in the configuration
	CfgMax    *int
	CfgStart  *int
	MeasMin   *int // measured (via attached RPM curve data), hwmon only
	MeasMax   *int
	Map       map[int]int
	N         int // rpmRollingWindowSize
	Alg       AlgSpec
	NoAttach  bool        // do not attach RPM curve data (the controller's Run does it)
	CfgMap    map[int]int // pwmMap given in the configuration
	// ModeStuck: the driver keeps reporting the control mode it had (writes to pwm_enable are silently ignored)
	ModeStuck bool
	// NoGetPwm / NoGetRpm: a command fan whose optional getPwm / getRpm command is not configured
	NoGetPwm bool
	NoGetRpm bool
}

func ip(v int) *int { return &v }

// optInt: the configured value, -1 when the option is absent
func optInt(p *int) int {
	if p == nil {
		return -1
	}
	return *p
}

var objCounter atomic.Int64

func uniq(prefix string) string { return fmt.Sprintf("%s%d", prefix, objCounter.Add(1)) }

// SchedCurve is a speed curve whose values are scheduled by the driver.
type SchedCurve struct {
	ID   string
	Next int
	Err  error
	Cur  int
	N    int
}

func (c *SchedCurve) GetId() string { return c.ID }
func (c *SchedCurve) Evaluate() (int, error) {
	c.N++
	if c.Err != nil {
		return c.Cur, c.Err
	}
	c.Cur = c.Next
	return c.Next, nil
}
func (c *SchedCurve) CurrentValue() int { return c.Cur }

// recLoop wraps the real control loop and records its last call.
type recLoop struct {
	inner                control_loop.ControlLoop
	target, current, out int
	calls                int
}

func (l *recLoop) Cycle(target int, current int) int {
	l.calls++
	l.target, l.current = target, current
	l.out = l.inner.Cycle(target, current)
	return l.out
}

func buildLoop(a AlgSpec) control_loop.ControlLoop {
	switch a.T {
	case "direct":
		return control_loop.NewDirectControlLoop(nil)
	case "rate":
		m := a.M
		return control_loop.NewDirectControlLoop(&m)
	case "pid":
		return control_loop.NewPidControlLoop(a.P, a.I, a.D)
	}
	panic("unknown alg " + a.T)
}

func DefaultPid(dt int) AlgSpec {
	d := control_loop.DefaultPidConfig
	return AlgSpec{T: "pid", P: d.P, I: d.I, D: d.D, Dt: dt, Default: true}
}

const cmdScriptHeader = "#!/bin/sh\n"

func writeScript(path, body string) {
	must(os.WriteFile(path, []byte(cmdScriptHeader+body), 0755))
	must(os.Chmod(path, 0755))
}

// BuildFan creates a real fan2go fan object of the given kind over the interposed tree.
// Registers: "pwm", "mode" (hwmon with HasMode), "rpm" (HasRpm).
func BuildFan(e *Env, spec FanSpec, id, curveId string, pwm0, mode0 int) fans.Fan {
	return BuildFanP(e, spec, id, curveId, pwm0, mode0, "")
}

// BuildFanP is BuildFan with a prefix for the register names (several fans in one Env).
func BuildFanP(e *Env, spec FanSpec, id, curveId string, pwm0, mode0 int, px string) fans.Fan {
	cfg := configuration.FanConfig{
		ID:        id,
		NeverStop: spec.NeverStop,
		Curve:     curveId,
		MinPwm:    spec.CfgMin,
		MaxPwm:    spec.CfgMax,
		StartPwm:  spec.CfgStart,
	}
	if spec.CfgMap != nil {
		m := spec.CfgMap
		cfg.PwmMap = &m
	}
	switch spec.Kind {
	case "hwmon":
		sub := "hw_" + id
		pwmPath := e.Register(px+"pwm", sub+"/pwm1", pwm0)
		modePath := filepath.Join(e.Dir, sub, "pwm1_enable")
		if spec.HasMode {
			modePath = e.Register(px+"mode", sub+"/pwm1_enable", mode0)
		}
		rpmPath := filepath.Join(e.Dir, sub, "fan1_input")
		if spec.HasRpm {
			rpmPath = e.Register(px+"rpm", sub+"/fan1_input", 0)
		}
		cfg.HwMon = &configuration.HwMonFanConfig{
			Platform: "verif", Index: 1, RpmChannel: 1, PwmChannel: 1,
			SysfsPath:     filepath.Join(e.Dir, sub),
			RpmInputPath:  rpmPath,
			PwmPath:       pwmPath,
			PwmEnablePath: modePath,
		}
	case "file":
		sub := "file_" + id
		pwmPath := e.Register(px+"pwm", sub+"/pwm", pwm0)
		fc := &configuration.FileFanConfig{Path: pwmPath}
		if spec.HasRpm {
			fc.RpmPath = e.Register(px+"rpm", sub+"/rpm", 0)
		}
		cfg.File = fc
	case "cmd":
		sub := filepath.Join(e.Dir, "cmd_"+id)
		must(os.MkdirAll(sub, 0755))
		pwmFile := filepath.Join(sub, "pwm")
		rpmFile := filepath.Join(sub, "rpm")
		wlog := filepath.Join(sub, "wlog")
		must(os.WriteFile(pwmFile, []byte(strconv.Itoa(pwm0)), 0644))
		must(os.WriteFile(rpmFile, []byte("0"), 0644))
		must(os.WriteFile(wlog, nil, 0644))
		// every script first looks at a fault-control file (absent in normal operation):
		// "fail" -> exit 3, "garbage" -> prints garbage
		fc := func(op string) string {
			return fmt.Sprintf("m=$(cat %s 2>/dev/null)\ncase \"$m\" in\n fail) exit 3;;\n garbage) echo abc; exit 0;;\n blank) echo ' '; exit 0;;\n crlf) printf '\\r\\n'; exit 0;;\nesac\n", filepath.Join(sub, "fault_"+op))
		}
		writeScript(filepath.Join(sub, "setpwm.sh"), fc("set")+fmt.Sprintf("echo \"$1\" >> %s\nprintf '%%s' \"$1\" > %s\n", wlog, pwmFile))
		writeScript(filepath.Join(sub, "getpwm.sh"), fc("get")+fmt.Sprintf("cat %s\n", pwmFile))
		// RPM: the content of the rpm file, or - when a plant threshold file exists (Run harness) - what a fan that turns
		// iff pwm > theta reports for the PWM value the device currently holds
		writeScript(filepath.Join(sub, "getrpm.sh"), fc("rpm")+fmt.Sprintf("if [ -f %s ]; then p=$(cat %s); t=$(cat %s); if [ \"$p\" -gt \"$t\" ]; then echo $((500 + 10 * p)); else echo 0; fi; else cat %s; fi\n",
			filepath.Join(sub, "theta"), pwmFile, filepath.Join(sub, "theta"), rpmFile))
		e.RegisterFile(px+"pwm", pwmFile)
		e.RegisterFile(px+"rpm", rpmFile)
		e.RegisterFile(px+"wlog", wlog)
		cc := &configuration.CmdFanConfig{
			SetPwm: &configuration.ExecConfig{Exec: filepath.Join(sub, "setpwm.sh"), Args: []string{"%pwm%"}},
			GetPwm: &configuration.ExecConfig{Exec: filepath.Join(sub, "getpwm.sh")},
		}
		if spec.HasRpm && !spec.NoGetRpm {
			cc.GetRpm = &configuration.ExecConfig{Exec: filepath.Join(sub, "getrpm.sh")}
		}
		if spec.NoGetPwm {
			cc.GetPwm = nil
		}
		cfg.Cmd = cc
	default:
		panic("unknown fan kind " + spec.Kind)
	}
	fan, err := fans.NewFan(cfg)
	must(err)
	if spec.Kind == "hwmon" && !spec.NoAttach {
		// measured limits come from attached RPM curve data
		data := map[int]float64{}
		mmin, mmax := 0, 255
		if spec.MeasMin != nil {
			mmin = *spec.MeasMin
		}
		if spec.MeasMax != nil {
			mmax = *spec.MeasMax
		}
		if mmin > 0 {
			data[mmin-1] = 0
		}
		if mmin < mmax {
			data[mmin] = 300
			data[mmax] = 3000
		} else {
			data[mmax] = 3000
		}
		if mmax < 255 {
			data[255] = 3000
		}
		must(fan.AttachFanRpmCurveData(&data))
	}
	return fan
}

// RegisterFile registers a short name for a real file that is accessed outside the interposer
// (cmd fans: the scripts read and write real files).
func (e *Env) RegisterFile(name, path string) {
	e.mu.Lock()
	e.paths[name] = path
	if e.fileBacked == nil {
		e.fileBacked = map[string]bool{}
	}
	e.fileBacked[name] = true
	e.mu.Unlock()
}

func readIntFile(path string) int {
	b, err := os.ReadFile(path)
	if err != nil {
		return -1
	}
	v, err := strconv.Atoi(strings.TrimSpace(string(b)))
	if err != nil {
		return -1
	}
	return v
}

// ---------------------------------------------------------------------------------------------
// Ctl: one real controller driven in lock-step by the harness (every action of the
// specification is one call into the real code, executed atomically by the driver goroutine).
// ---------------------------------------------------------------------------------------------

type Ctl struct {
	reg_  *prometheus.Registry
	Env   *Env
	Rec   *Recorder
	Spec  FanSpec
	Fan   fans.Fan
	C     *controller.DefaultFanController
	Curve *SchedCurve
	Loop  *recLoop
	Pers  persistence.Persistence
	wlogN int
	raced bool
	wfail bool
}

func NewCtl(rec *Recorder, spec FanSpec, pwm0, mode0 int, avg0 float64) *Ctl {
	dir := scratchDir("verif.ctl.")
	env := NewEnv(dir)
	InstallEnv(env)
	if spec.N <= 0 {
		spec.N = 10
	}
	configuration.CurrentConfig.RpmRollingWindowSize = spec.N
	// the two window options are independent: the temperature window is always different from the RPM window
	configuration.CurrentConfig.TempRollingWindowSize = 3*spec.N + 7
	curve := &SchedCurve{ID: uniq("vcurve")}
	curves.RegisterSpeedCurve(curve)
	id := uniq("vfan")
	fan := BuildFan(env, spec, id, curve.ID, pwm0, mode0)
	fans.RegisterFan(fan)
	loop := &recLoop{inner: buildLoop(spec.Alg)}
	pers := persistence.NewPersistence(filepath.Join(dir, "fan2go.db"))
	fc := controller.NewFanController(pers, fan, loop, 200*time.Millisecond)
	c := fc.(*controller.DefaultFanController)
	m := spec.Map
	if m == nil {
		m = map[int]int{}
		for i := 0; i <= 255; i++ {
			m[i] = i
		}
	}
	mm := make(map[int]int, len(m))
	for k, v := range m {
		mm[k] = v
	}
	c.VerifSetPwmMap(mm)
	fan.SetRpmAvg(avg0)
	if spec.ModeStuck && spec.HasMode && spec.Kind == "hwmon" {
		env.Quant["mode"] = func(int) int { return mode0 }
	}
	ctl := &Ctl{Env: env, Rec: rec, Spec: spec, Fan: fan, C: c, Curve: curve, Loop: loop, Pers: pers}
	// the Prometheus collectors of this fan and controller, as fan2go registers them
	ctl.reg_ = prometheus.NewRegistry()
	ctl.reg_.MustRegister(statistics.NewControllerCollector([]controller.FanController{fc}), statistics.NewFanCollector([]fans.Fan{fan}))
	env.DrainLog()
	return ctl
}

func (c *Ctl) Close() {
	InstallEnv(nil)
	_ = os.RemoveAll(c.Env.Dir)
}

func (c *Ctl) reg(name string) int {
	if _, ok := c.Env.paths[name]; !ok {
		return -1
	}
	return c.Env.Get(name)
}

func (c *Ctl) EmitInit(extra Ev) {
	st := c.C.VerifState()
	mode := 1
	if c.Spec.HasMode {
		mode = c.reg("mode")
	}
	ev := Ev{
		"ev": "Init", "kind": c.Spec.Kind, "neverStop": c.Fan.ShouldNeverStop(),
		"hasRpm":  c.Fan.Supports(fans.FeatureRpmSensor),
		"hasPwm":  c.Fan.Supports(fans.FeaturePwmSensor),
		"hasMode": c.Fan.Supports(fans.FeatureControlMode),
		"gmin":    c.Fan.GetMinPwm(), "mx": c.Fan.GetMaxPwm(),
		"cfgMin": optInt(c.Spec.CfgMin), "cfgMax": optInt(c.Spec.CfgMax),
		"map": pairs(st.PwmMap), "n": c.Spec.N,
		"alg": c.Spec.Alg,
		"pwm": c.reg("pwm"), "mode": mode, "avgm": milli(c.Fan.GetRpmAvg()),
		"modeStuck": c.Spec.ModeStuck && c.Spec.HasMode && c.Spec.Kind == "hwmon",
	}
	for k, v := range extra {
		ev[k] = v
	}
	c.Env.DrainLog()
	c.Rec.Emit(ev)
}

func (c *Ctl) pwmWrites() (writes []int, modeWrites []int, rerr int) {
	writes, modeWrites = []int{}, []int{}
	for _, io := range c.Env.DrainLog() {
		if io.Op == "w" && io.Path == "pwm" {
			writes = append(writes, io.Val)
		}
		if io.Op == "w" && io.Path == "mode" {
			modeWrites = append(modeWrites, io.Val)
		}
		if io.Err {
			rerr++
		}
	}
	if c.Spec.Kind == "cmd" {
		b, _ := os.ReadFile(c.Env.Path("wlog"))
		lines := strings.Fields(string(b))
		for _, l := range lines[c.wlogN:] {
			v, _ := strconv.Atoi(l)
			writes = append(writes, v)
		}
		c.wlogN = len(lines)
	}
	return
}

// metrics scrapes the collectors: the values a Prometheus scrape would see right now
func (c *Ctl) metrics() map[string]int {
	out := map[string]int{}
	mfs, err := c.reg_.Gather()
	if err != nil {
		return out
	}
	for _, mf := range mfs {
		for _, m := range mf.GetMetric() {
			v := 0.0
			if m.GetGauge() != nil {
				v = m.GetGauge().GetValue()
			} else if m.GetCounter() != nil {
				v = m.GetCounter().GetValue()
			}
			out[mf.GetName()] = int(v)
		}
	}
	return out
}

// CycleRaced: like Cycle, but the firmware takes the fan back to automatic mode (2) in the middle of the cycle - right after
// fan2go's write of the control mode, before its read-back. The cycle is recorded with "raced": it is exempt from the
// per-cycle guarantees, the NEXT (undisturbed) cycle must bring the fan back to manual mode.
func (c *Ctl) CycleRaced(cv int, dt int) (int, error) {
	if c.Spec.Kind != "hwmon" || !c.Spec.HasMode {
		return c.Cycle(cv, dt)
	}
	c.Env.mu.Lock()
	armed := true
	c.Env.OnRead = func(e *Env, name string) (int, error, bool) {
		if name == "mode" && armed {
			armed = false
			e.vals[e.paths["mode"]] = 2
			return 2, nil, true
		}
		return 0, nil, false
	}
	c.Env.mu.Unlock()
	c.raced = true
	defer func() {
		c.raced = false
		c.Env.mu.Lock()
		c.Env.OnRead = nil
		c.Env.mu.Unlock()
	}()
	return c.Cycle(cv, dt)
}

// CycleWriteFault: like Cycle, but the device refuses the PWM write of this cycle (a transient error of the driver). The
// cycle is recorded with "wfail" and is exempt from the per-cycle guarantees; what the FOLLOWING cycles do is judged.
func (c *Ctl) CycleWriteFault(cv int, dt int) (int, error) {
	if c.Spec.Kind == "cmd" {
		return c.Cycle(cv, dt)
	}
	c.Env.mu.Lock()
	c.Env.OnWrite = func(e *Env, name string, val int) (error, bool, bool) {
		if name == "pwm" {
			return fmt.Errorf("injected write error"), false, true
		}
		return nil, false, false
	}
	c.Env.mu.Unlock()
	c.wfail = true
	defer func() {
		c.wfail = false
		c.Env.mu.Lock()
		c.Env.OnWrite = nil
		c.Env.mu.Unlock()
	}()
	return c.Cycle(cv, dt)
}

// Cycle performs one UpdateFanSpeed with the given curve value and records it.
// dt is the (virtual) time in ms the driver let pass since the previous cycle (logged only).
func (c *Ctl) Cycle(cv int, dt int) (req int, cerr error) {
	c.Curve.Next = cv
	avgBefore := c.Fan.GetRpmAvg()
	calls := c.Loop.calls
	cerr = c.C.UpdateFanSpeed()
	st := c.C.VerifState()
	writes, modeWrites, _ := c.pwmWrites()
	wrote := -1
	if len(writes) > 0 {
		wrote = writes[len(writes)-1]
	}
	mode := 1
	if c.Spec.HasMode {
		mode = c.reg("mode")
	}
	req = st.LastSetPwm
	if cerr != nil {
		req = -1
	}
	ev := Ev{
		"ev": "Cycle", "cv": cv, "dt": dt, "raced": c.raced, "wfail": c.wfail, "cfail": c.Curve.Err != nil,
		"lt": c.Loop.target, "lc": c.Loop.current, "lo": c.Loop.out, "lcalls": c.Loop.calls - calls,
		"req": req, "last": st.LastSetPwm, "err": cerr != nil,
		"wrote": wrote, "nw": len(writes), "mw": modeWrites,
		"pwm": c.reg("pwm"), "mode": mode,
		"offset": st.MinPwmOffset, "raises": st.Stats.IncreasedMinPwmCount,
		"unexpected": st.Stats.UnexpectedPwmValueCount,
		"gmin":       c.Fan.GetMinPwm(), "mx": c.Fan.GetMaxPwm(),
		"avgm": milli(avgBefore), "avgm2": milli(c.Fan.GetRpmAvg()),
	}
	if c.Spec.Kind == "hwmon" { // (scraping a file/cmd fan has side effects: GetRpm stores into the field GetRpmAvg returns; cmd: runs scripts)
		mt := c.metrics()
		c.Env.DrainLog()
		ev["metrics"] = Ev{"unexpected": mt["fan2go_controller_unexpected_pwm_value_count"], "raises": mt["fan2go_controller_increased_minPwm_count"],
			"offset": mt["fan2go_controller_minPwm_offset"], "pwm": mt["fan2go_fan_pwm"], "n": len(mt)}
	} else {
		ev["metrics"] = Ev{"unexpected": -1, "raises": -1, "offset": -1, "pwm": -1, "n": 0}
	}
	c.Rec.Emit(ev)
	return req, cerr
}

// PwmReadFails: when set, the PWM read-back fails during the next RPM polls (hwmon/file fans)
var _ = 0

// Rpm performs one measureRpm with the fan reporting r (ok=false: the RPM read fails).
func (c *Ctl) Rpm(r int, ok bool) { c.RpmX(r, ok, false) }

// RpmX: like Rpm; pwmFail makes the PWM read-back of this poll fail as well (the RPM sample cannot be
// attributed to a PWM value, the average must be updated all the same)
func (c *Ctl) RpmX(r int, ok bool, pwmFail bool) {
	if pwmFail && c.Spec.Kind != "cmd" {
		defer func() {
			c.Env.mu.Lock()
			c.Env.OnRead = nil
			c.Env.mu.Unlock()
		}()
	}
	c.rpmInner(r, ok, pwmFail)
}

func (c *Ctl) rpmInner(r int, ok bool, pwmFail bool) {
	if c.Spec.Kind == "cmd" {
		if ok {
			must(os.WriteFile(c.Env.Path("rpm"), []byte(strconv.Itoa(r)), 0644))
		} else {
			must(os.WriteFile(c.Env.Path("rpm"), []byte("garbage"), 0644))
		}
	} else {
		c.Env.Set("rpm", r)
		if !ok || pwmFail {
			c.Env.mu.Lock()
			seenPwm := 0
			c.Env.OnRead = func(e *Env, name string) (int, error, bool) {
				if name == "rpm" && !ok {
					return 0, fmt.Errorf("injected read error"), true
				}
				if name == "pwm" && pwmFail {
					seenPwm++
					if seenPwm > 1 { // the feature probe succeeds, the read that follows fails
						return 0, fmt.Errorf("injected read error"), true
					}
				}
				return 0, nil, false
			}
			c.Env.mu.Unlock()
		}
	}
	before := c.Fan.GetRpmAvg()
	c.C.VerifMeasureRpm()
	if !ok && c.Spec.Kind != "cmd" {
		c.Env.mu.Lock()
		c.Env.OnRead = nil
		c.Env.mu.Unlock()
	}
	c.Env.DrainLog()
	if !ok {
		r = 0 // a failed read is used as reading 0
	}
	c.Rec.Emit(Ev{"ev": "Rpm", "r": r, "ok": ok, "pwmFail": pwmFail, "avgm": milli(before), "avgm2": milli(c.Fan.GetRpmAvg())})
}

// SetAvg sets the fan's RPM average directly (abstract measurement step of the model).
func (c *Ctl) SetAvg(a float64) {
	before := c.Fan.GetRpmAvg()
	c.Fan.SetRpmAvg(a)
	c.Rec.Emit(Ev{"ev": "SetAvg", "avgm": milli(before), "avgm2": milli(c.Fan.GetRpmAvg())})
}

// Poke models a third party writing the fan's registers (mode < 0: leave the mode alone).
func (c *Ctl) Poke(mode, pwm int) {
	if mode >= 0 && c.Spec.HasMode && !c.Spec.ModeStuck { // (a driver that ignores mode writes ignores everybody's)
		c.Env.Set("mode", mode)
	}
	if pwm >= 0 {
		if c.Spec.Kind == "cmd" {
			must(os.WriteFile(c.Env.Path("pwm"), []byte(strconv.Itoa(pwm)), 0644))
		} else {
			c.Env.Set("pwm", pwm)
		}
	}
	m := 1
	if c.Spec.HasMode {
		m = c.reg("mode")
	}
	c.Rec.Emit(Ev{"ev": "Poke", "mode": m, "pwm": c.reg("pwm")})
}
