//go:build verif

package verifharness

import (
	"os"
	"testing"
)

func TestMain(m *testing.M) {
	if os.Getenv("VERIF_CHILD") != "" {
		ChildMain()
	}
	os.Exit(m.Run())
}

// TestChild is the -test.run target of re-executed children (TestMain takes over before it runs).
func TestChild(t *testing.T) {}
