//go:build verif

package verifharness

import (
	"fmt"
	"math"
	"math/rand"
	"os"
	"path/filepath"
	"sort"
	"sync"
	"testing"
	"testing/synctest"
	"time"

	"github.com/markusressel/fan2go/internal/configuration"
	"github.com/markusressel/fan2go/internal/curves"
	"github.com/markusressel/fan2go/internal/sensors"
)

// ---------------------------------------------------------------------------------------------
// C06 / C07: records of real curve evaluations (curves built by the real constructors and
// registered in the real registries, real sensors whose moving average / raw value is set by the
// driver), validated by TLC against spec/Curves.tla.
// ---------------------------------------------------------------------------------------------

func newFileSensor(env *Env, id string, milli int) sensors.Sensor {
	p := env.Register("s."+id, "sensors/"+id, milli)
	s, err := sensors.NewSensor(configuration.SensorConfig{ID: id, File: &configuration.FileSensorConfig{Path: p}})
	must(err)
	s.SetMovingAvg(float64(milli))
	sensors.RegisterSensor(s)
	return s
}

func mkCurve(cfg configuration.CurveConfig) curves.SpeedCurve {
	c, err := curves.NewSpeedCurve(cfg)
	must(err)
	curves.RegisterSpeedCurve(c)
	return c
}

// gridAround: temperatures (milli-degrees) 1 m-degree around every threshold and a coarse grid
func tempGrid(r *rand.Rand, thresholds []int, lo, hi, coarse int) []int {
	set := map[int]bool{}
	for _, t := range thresholds {
		for d := -3; d <= 3; d++ {
			set[t*1000+d] = true
		}
		set[t*1000+500] = true
		set[t*1000-500] = true
	}
	for t := lo; t <= hi; t += coarse {
		set[t] = true
	}
	for i := 0; i < 40; i++ {
		set[lo+r.Intn(hi-lo+1)] = true
	}
	var out []int
	for t := range set {
		out = append(out, t)
	}
	sort.Ints(out)
	return out
}

func clampMilli(x float64) (lo, hi int, exact bool) {
	const lim = 1000000
	if math.IsNaN(x) {
		return 0, 0, false
	}
	fl, ce := math.Floor(x), math.Ceil(x)
	c := func(v float64) int {
		if v > lim {
			return lim
		}
		if v < -lim {
			return -lim
		}
		return int(v)
	}
	return c(fl), c(ce), fl == ce && math.Abs(x) <= lim
}

func stepsPairs(m map[int]float64) [][2]int {
	keys := make([]int, 0, len(m))
	for k := range m {
		keys = append(keys, k)
	}
	sort.Ints(keys)
	var out [][2]int
	for _, k := range keys {
		out = append(out, [2]int{k, int(m[k])})
	}
	return out
}

func randSteps(r *rand.Rand, monotone bool) map[int]float64 {
	n := 1 + r.Intn(6)
	m := map[int]float64{}
	v := r.Intn(100)
	for len(m) < n {
		k := -20 + r.Intn(140)
		if _, ok := m[k]; ok {
			continue
		}
		m[k] = 0
	}
	keys := make([]int, 0, n)
	for k := range m {
		keys = append(keys, k)
	}
	sort.Ints(keys)
	for _, k := range keys {
		if monotone {
			v += r.Intn(90)
			if v > 255 {
				v = 255
			}
			m[k] = float64(v)
		} else {
			m[k] = float64(r.Intn(256))
		}
	}
	return m
}

func TestDriveCurves(t *testing.T) {
	out := os.Getenv("VERIF_OUT")
	if out == "" {
		t.Skip("VERIF_OUT not set")
	}
	seed := int64(envInt("VERIF_SEED", 1))
	n := envInt("VERIF_N", 20)
	shard := envInt("VERIF_SHARD", 0)
	rec, err := NewRecorder(out)
	must(err)
	defer rec.Close()
	r := rand.New(rand.NewSource(seed*31337 + int64(shard)))
	dir := scratchDir("verif.curves.")
	defer os.RemoveAll(dir)
	env := NewEnv(dir)
	InstallEnv(env)
	defer InstallEnv(nil)

	for i := 0; i < n; i++ {
		// ---- one linear curve, swept over an ascending temperature grid (C06 + C07)
		sid := uniq("cs")
		s := newFileSensor(env, sid, 0)
		if r.Intn(2) == 0 {
			mn := -10 + r.Intn(100)
			mx := mn + 1 + r.Intn(120)
			c := mkCurve(configuration.CurveConfig{ID: uniq("lin"), Linear: &configuration.LinearCurveConfig{Sensor: sid, Min: mn, Max: mx}})
			ts := tempGrid(r, []int{mn, mx}, mn*1000-5000, mx*1000+5000, 100)
			vals := make([]int, 0, len(ts))
			cur := make([]int, 0, len(ts))
			for _, T := range ts {
				s.SetMovingAvg(float64(T))
				v, err := c.Evaluate()
				must(err)
				vals = append(vals, v)
				cur = append(cur, c.CurrentValue())
			}
			rec.Emit(Ev{"ev": "Lin", "mn": mn, "mx": mx, "ts": ts, "vals": vals, "cur": cur})
			// non-integer and extreme sensor values
			for _, x := range []float64{float64(mn*1000) + 0.5, float64(mx*1000) - 0.25, 1e300, -1e300, -0.0, 1e9 + 0.5,
				float64(mn*1000) + r.Float64()*float64((mx-mn)*1000), math.MaxFloat64, math.SmallestNonzeroFloat64} {
				s.SetMovingAvg(x)
				v, err := c.Evaluate()
				must(err)
				lo, hi, exact := clampMilli(x)
				rec.Emit(Ev{"ev": "LinX", "mn": mn, "mx": mx, "lo": lo, "hi": hi, "exact": exact, "val": v, "cur": c.CurrentValue()})
			}
		} else {
			mono := r.Intn(3) > 0
			steps := randSteps(r, mono)
			c := mkCurve(configuration.CurveConfig{ID: uniq("steps"), Linear: &configuration.LinearCurveConfig{Sensor: sid, Steps: steps}})
			var th []int
			for k := range steps {
				th = append(th, k)
			}
			sort.Ints(th)
			ts := tempGrid(r, th, th[0]*1000-5000, th[len(th)-1]*1000+5000, 100)
			vals := make([]int, 0, len(ts))
			cur := make([]int, 0, len(ts))
			for _, T := range ts {
				s.SetMovingAvg(float64(T))
				v, err := c.Evaluate()
				must(err)
				vals = append(vals, v)
				cur = append(cur, c.CurrentValue())
			}
			rec.Emit(Ev{"ev": "Steps", "steps": stepsPairs(steps), "mono": mono, "ts": ts, "vals": vals, "cur": cur})
			for _, x := range []float64{float64(th[0]*1000) + 0.5, 1e300, -1e300, float64(th[0]*1000) + r.Float64()*float64((th[len(th)-1]-th[0])*1000+1)} {
				s.SetMovingAvg(x)
				v, err := c.Evaluate()
				must(err)
				lo, hi, exact := clampMilli(x)
				rec.Emit(Ev{"ev": "StepsX", "steps": stepsPairs(steps), "lo": lo, "hi": hi, "exact": exact, "val": v, "cur": c.CurrentValue()})
			}
		}
		// ---- a curve graph: leaves (linear) and nested function curves (depth <= 4, 1..8 members)
		driveGraph(rec, env, r, true)
		driveGraph(rec, env, r, false)
		// ---- PID curves on the exact grid (virtual time, 1 s ticks) and range-only with arbitrary finite gains
		synctest.Test(t, func(t *testing.T) { drivePid(rec, env, r) })
	}
}

// driveGraph builds a random DAG of curves and evaluates every root for a few sensor vectors.
// monotone: only non-decreasing leaves and monotone-preserving function types, evaluated along an
// ascending path of sensor vectors (C07).
func driveGraph(rec *Recorder, env *Env, r *rand.Rand, monotone bool) {
	ns := 1 + r.Intn(3)
	var sids []string
	var ss []sensors.Sensor
	for i := 0; i < ns; i++ {
		id := uniq("gs")
		sids = append(sids, id)
		ss = append(ss, newFileSensor(env, id, 0))
	}
	type node struct {
		id    string
		cfg   Ev
		curve curves.SpeedCurve
		depth int
	}
	var nodes []node
	nl := 1 + r.Intn(4)
	for i := 0; i < nl; i++ {
		id := uniq("gl")
		sid := sids[r.Intn(ns)]
		if r.Intn(2) == 0 {
			mn := r.Intn(60)
			mx := mn + 1 + r.Intn(60)
			c := mkCurve(configuration.CurveConfig{ID: id, Linear: &configuration.LinearCurveConfig{Sensor: sid, Min: mn, Max: mx}})
			nodes = append(nodes, node{id, Ev{"id": id, "t": "lin", "sensor": sid, "mn": mn, "mx": mx, "steps": [][2]int{}, "fn": "", "members": []string{}}, c, 0})
		} else {
			steps := randSteps(r, monotone || r.Intn(2) == 0)
			c := mkCurve(configuration.CurveConfig{ID: id, Linear: &configuration.LinearCurveConfig{Sensor: sid, Steps: steps}})
			nodes = append(nodes, node{id, Ev{"id": id, "t": "steps", "sensor": sid, "mn": 0, "mx": 0, "steps": stepsPairs(steps), "fn": "", "members": []string{}}, c, 0})
		}
	}
	types := []string{"sum", "difference", "delta", "average", "minimum", "maximum"}
	if monotone {
		types = []string{"sum", "average", "minimum", "maximum"}
	}
	nf := 1 + r.Intn(5)
	for i := 0; i < nf; i++ {
		id := uniq("gf")
		k := 1 + r.Intn(8)
		var members []string
		depth := 0
		for j := 0; j < k; j++ {
			m := nodes[r.Intn(len(nodes))]
			if m.depth >= 3 {
				m = nodes[r.Intn(nl)]
			}
			members = append(members, m.id)
			if m.depth+1 > depth {
				depth = m.depth + 1
			}
		}
		ft := types[r.Intn(len(types))]
		c := mkCurve(configuration.CurveConfig{ID: id, Function: &configuration.FunctionCurveConfig{Type: ft, Curves: append([]string(nil), members...)}})
		nodes = append(nodes, node{id, Ev{"id": id, "t": "fn", "sensor": "", "mn": 0, "mx": 0, "steps": [][2]int{}, "fn": ft, "members": members}, c, depth})
	}
	var cfgs []Ev
	for _, nd := range nodes {
		cfgs = append(cfgs, nd.cfg)
	}
	// sensor vectors: ascending path when monotone
	cur := make([]int, ns)
	for i := range cur {
		cur[i] = -5000 + r.Intn(30000)
	}
	var evals []Ev
	for step := 0; step < 12; step++ {
		var sv []Ev
		for i := range cur {
			if monotone {
				if r.Intn(2) == 0 {
					cur[i] += r.Intn(15000)
				}
			} else {
				cur[i] = -20000 + r.Intn(160000)
			}
			ss[i].SetMovingAvg(float64(cur[i]))
			sv = append(sv, Ev{"id": sids[i], "T": cur[i]})
		}
		// evaluate every function curve (top-down evaluation updates its members), then read all values
		var vals []Ev
		for i := len(nodes) - 1; i >= 0; i-- {
			_, err := nodes[i].curve.Evaluate()
			must(err)
		}
		for _, nd := range nodes {
			v, err := nd.curve.Evaluate()
			must(err)
			vals = append(vals, Ev{"id": nd.id, "v": v, "cur": nd.curve.CurrentValue()})
		}
		evals = append(evals, Ev{"sensors": sv, "vals": vals})
	}
	rec.Emit(Ev{"ev": "Graph", "mono": monotone, "curves": cfgs, "evals": evals})
}

func drivePid(rec *Recorder, env *Env, r *rand.Rand) {
	// exact grid: P = p/100, I = i/1000, D = d/1000, integer set point, measurements in tenths of a degree
	sid := uniq("ps")
	newFileSensor(env, sid, 0)
	p, i, d := -(r.Intn(12)), -(r.Intn(6)), -(r.Intn(12))
	if r.Intn(4) == 0 {
		p, i, d = r.Intn(20)-10, r.Intn(20)-10, r.Intn(20)-10
	}
	if p == 0 && i == 0 && d == 0 {
		p = -5
	}
	sp := 30 + r.Intn(40)
	c := mkCurve(configuration.CurveConfig{ID: uniq("pid"), PID: &configuration.PidCurveConfig{Sensor: sid, SetPoint: float64(sp),
		P: float64(p) / 100, I: float64(i) / 1000, D: float64(d) / 1000}})
	var ms, vals, cur []int
	m := sp*10 + r.Intn(60) - 10
	for k := 0; k < 25; k++ {
		m += r.Intn(21) - 10
		env.Set("s."+sid, m*100)
		v, err := c.Evaluate()
		must(err)
		ms = append(ms, m)
		vals = append(vals, v)
		cur = append(cur, c.CurrentValue())
		time.Sleep(time.Second)
	}
	rec.Emit(Ev{"ev": "Pid", "p": p, "i": i, "d": d, "sp": sp, "ms": ms, "vals": vals, "cur": cur})
	{
		// a SUSTAINED error with a small integral gain (and little or no proportional gain): the term is carried by the
		// integral, which has to grow far beyond the size of a PWM value (hundreds of degree-seconds) before the curve
		// reaches its end - slowly over many evaluations
		sidL := uniq("ps")
		newFileSensor(env, sidL, 0)
		pL, iL, dL := -(r.Intn(2)), -(1 + r.Intn(3)), 0
		spL := 30 + r.Intn(40)
		cL := mkCurve(configuration.CurveConfig{ID: uniq("pidlong"), PID: &configuration.PidCurveConfig{Sensor: sidL, SetPoint: float64(spL),
			P: float64(pL) / 100, I: float64(iL) / 1000, D: 0}})
		var msL, valsL, curL []int
		off := 250 + r.Intn(350) // 25..60 degrees too hot
		for k := 0; k < 45; k++ {
			mL := spL*10 + off + r.Intn(11) - 5
			env.Set("s."+sidL, mL*100)
			v, err := cL.Evaluate()
			must(err)
			msL, valsL, curL = append(msL, mL), append(valsL, v), append(curL, cL.CurrentValue())
			time.Sleep(time.Second)
		}
		rec.Emit(Ev{"ev": "Pid", "p": pL, "i": iL, "d": dL, "sp": spL, "ms": msL, "vals": valsL, "cur": curL})
	}
	// arbitrary finite gains and inputs over the whole range: the value must stay within 0..255
	sid2 := uniq("ps")
	newFileSensor(env, sid2, 0)
	g := func() float64 { return []float64{0, 1e-9, -0.05, 3.7, -1e6, 1e300, -1e300}[r.Intn(7)] }
	gp, gi, gd := g(), g(), g()
	if gp == 0 && gi == 0 && gd == 0 {
		gp = -0.05
	}
	c2 := mkCurve(configuration.CurveConfig{ID: uniq("pidx"), PID: &configuration.PidCurveConfig{Sensor: sid2, SetPoint: g(), P: gp, I: gi, D: gd}})
	var rv []int
	for k := 0; k < 12; k++ {
		env.Set("s."+sid2, []int{0, -273000, 1 << 40, 55000, -(1 << 40), 99999}[r.Intn(6)])
		v, err := c2.Evaluate()
		must(err)
		rv = append(rv, v, c2.CurrentValue())
		time.Sleep([]time.Duration{0, time.Millisecond, time.Second, time.Hour}[r.Intn(4)])
	}
	rec.Emit(Ev{"ev": "PidRange", "gains": fmt.Sprintf("%g/%g/%g", gp, gi, gd), "vals": rv})
	// saturation: gains of one sign and a finite reading so far from the set point that the term is beyond 0..1 by many
	// orders of magnitude - the curve value is 255 when the term is positive, 0 when it is negative (clamped, then scaled)
	sid3 := uniq("ps")
	big := []float64{1e18, 1e25, 1e300, -1e18, -1e25, -1e300, math.MaxFloat64 / 4}[r.Intn(7)]
	// (a PID curve takes the sensor's current reading, not its average: a command sensor can report any finite number)
	script := filepath.Join(env.Dir, sid3+".sh")
	writeScript(script, fmt.Sprintf("echo %g\n", big))
	s3, err := sensors.NewSensor(configuration.SensorConfig{ID: sid3, Cmd: &configuration.CmdSensorConfig{Exec: script}})
	must(err)
	s3.SetMovingAvg(big)
	sensors.RegisterSensor(s3)
	sign := []float64{-1, 1}[r.Intn(2)]
	c3 := mkCurve(configuration.CurveConfig{ID: uniq("pidsat"), PID: &configuration.PidCurveConfig{Sensor: sid3, SetPoint: 60,
		P: sign * 0.05, I: sign * 0.005, D: sign * 0.001}})
	var sv []int
	okAll := true
	for k := 0; k < 4; k++ {
		v, err := c3.Evaluate()
		for retry := 0; retry < 3 && err != nil; retry++ { // (the sensor is a real command: it may fail on a loaded machine)
			v, err = c3.Evaluate()
		}
		if err != nil {
			okAll = false
			break
		}
		sv = append(sv, v, c3.CurrentValue())
		time.Sleep(time.Second)
	}
	if !okAll {
		return
	}
	want := 0
	if sign*(60-big/1000) > 0 {
		want = 255
	}
	rec.Emit(Ev{"ev": "PidSat", "sign": int(sign), "hot": big > 0, "want": want, "vals": sv})
}

// TestDriveC07Ctl: the real controller with the direct algorithm swept over the curve values 0..255
// for sampled fan limits and non-decreasing PWM maps: requested and written values per curve value.
func TestDriveC07Ctl(t *testing.T) {
	out := os.Getenv("VERIF_OUT")
	if out == "" {
		t.Skip("VERIF_OUT not set")
	}
	seed := int64(envInt("VERIF_SEED", 1))
	n := envInt("VERIF_N", 10)
	rec, err := NewRecorder(out)
	must(err)
	defer rec.Close()
	null, _ := NewRecorder(os.DevNull)
	defer null.Close()
	r := rand.New(rand.NewSource(seed))
	for i := 0; i < n; i++ {
		mn, mx := randLimits(r)
		spec := FanSpec{Kind: []string{"hwmon", "hwmon", "file"}[r.Intn(3)], NeverStop: r.Intn(2) == 0, HasRpm: false, N: 10, Alg: AlgSpec{T: "direct"}}
		spec.HasMode = spec.Kind == "hwmon"
		if spec.Kind == "hwmon" {
			spec.CfgMin, spec.CfgMax = ip(mn), ip(mx)
		}
		// non-decreasing map
		m := map[int]int{}
		switch r.Intn(4) {
		case 0:
			m = identityMap()
		case 1:
			m = quantMap([]int{2, 8, 32, 51}[r.Intn(4)])
		case 2:
			v := 0
			for k := 0; k <= 255; k += 1 + r.Intn(40) {
				v += r.Intn(60)
				if v > 255 {
					v = 255
				}
				m[k] = v
			}
		default:
			v := 0
			for k := 0; k <= 255; k++ {
				if r.Intn(3) == 0 {
					v += r.Intn(3)
				}
				if v > 255 {
					v = 255
				}
				m[k] = v
			}
		}
		spec.Map = m
		c := NewCtl(null, spec, r.Intn(256), 2, 0)
		var reqs, regs []int
		for cv := 0; cv <= 255; cv++ {
			req, err := c.Cycle(cv, 0)
			must(err)
			reqs = append(reqs, req)
			regs = append(regs, c.reg("pwm"))
		}
		rec.Emit(Ev{"ev": "CtlSweep", "gmin": c.Fan.GetMinPwm(), "mx": c.Fan.GetMaxPwm(), "map": pairs(m), "reqs": reqs, "regs": regs})
		c.Close()
		// the direct algorithm with maxPwmChangePerCycle: from one and the same previous state, the
		// request is non-decreasing in the curve value
		if i%3 == 0 {
			lim := []int{1, 5, 10, 50}[r.Intn(4)]
			prev := r.Intn(256)
			spec.Alg = AlgSpec{T: "rate", M: lim}
			var rr []int
			for cv := 0; cv <= 255; cv += 1 {
				// the fan shows `prev` and the first cycle asks for `prev`: the loop's previous output is exactly prev
				c2 := NewCtl(null, spec, prev, 2, 0)
				_, err := c2.Cycle(prev, 0)
				must(err)
				y0 := c2.Loop.out
				if y0 != prev {
					panic("C07 rate sweep: previous loop output is not the intended one")
				}
				req, err := c2.Cycle(cv, 0)
				must(err)
				rr = append(rr, req)
				c2.Close()
			}
			rec.Emit(Ev{"ev": "CtlSweepRate", "gmin": c.Fan.GetMinPwm(), "mx": c.Fan.GetMaxPwm(), "m": lim, "prev": prev, "reqs": rr})
		}
	}
}

// TestDriveC07Conc: C07 when several fans evaluate one curve graph at the same time (each controller runs in its own
// goroutine) while the sensor monitors push the temperatures up: the values any ONE fan sees in successive evaluations never
// decrease. (Every sensor read of a later evaluation happens after every read of an earlier one of the same goroutine, the
// graph is monotone, so the sequence is non-decreasing whatever the interleaving - unless evaluations disturb each other.)
func TestDriveC07Conc(t *testing.T) {
	out := os.Getenv("VERIF_OUT")
	if out == "" {
		t.Skip("VERIF_OUT not set")
	}
	seed := int64(envInt("VERIF_SEED", 1))
	n := envInt("VERIF_N", 20)
	rec, err := NewRecorder(out)
	must(err)
	defer rec.Close()
	r := rand.New(rand.NewSource(seed))
	for round := 0; round < n; round++ {
		pfx := uniq("cc")
		var ss []sensors.Sensor
		for k := 0; k < 2; k++ {
			s, err := sensors.NewSensor(configuration.SensorConfig{ID: fmt.Sprintf("%ss%d", pfx, k), File: &configuration.FileSensorConfig{Path: "/nonexistent"}})
			must(err)
			s.SetMovingAvg(20000)
			sensors.RegisterSensor(s)
			ss = append(ss, s)
		}
		mk := func(cc configuration.CurveConfig) curves.SpeedCurve {
			c, err := curves.NewSpeedCurve(cc)
			must(err)
			curves.RegisterSpeedCurve(c)
			return c
		}
		fn := pick(r, "sum", "average", "maximum", "minimum")
		mk(configuration.CurveConfig{ID: pfx + "lin", Linear: &configuration.LinearCurveConfig{Sensor: pfx + "s0", Min: 20 + r.Intn(20), Max: 60 + r.Intn(30)}})
		mk(configuration.CurveConfig{ID: pfx + "st", Linear: &configuration.LinearCurveConfig{Sensor: pfx + "s1", Steps: map[int]float64{25: 10, 45: 90, 65: 200, 85: 255}}})
		mk(configuration.CurveConfig{ID: pfx + "fn", Function: &configuration.FunctionCurveConfig{Type: fn, Curves: []string{pfx + "lin", pfx + "st"}}})
		top := mk(configuration.CurveConfig{ID: pfx + "top", Function: &configuration.FunctionCurveConfig{Type: pick(r, "maximum", "sum", "average"), Curves: []string{pfx + "fn", pfx + "lin", pfx + "st"}}})
		var wg sync.WaitGroup
		stop := make(chan struct{})
		// the monitors: temperatures only rise
		wg.Add(1)
		go func() {
			defer wg.Done()
			v := 20000.0
			for {
				select {
				case <-stop:
					return
				default:
				}
				v += 37
				ss[0].SetMovingAvg(v)
				ss[1].SetMovingAvg(v + 1500)
				if v > 95000 {
					return
				}
			}
		}()
		results := make([][]int, 4)
		var fw sync.WaitGroup
		for g := 0; g < 4; g++ {
			fw.Add(1)
			go func(g int) {
				defer fw.Done()
				vals := make([]int, 0, 400)
				for k := 0; k < 400; k++ {
					v, err := top.Evaluate()
					if err != nil {
						v = -1
					}
					vals = append(vals, v)
				}
				results[g] = vals
			}(g)
		}
		fw.Wait()
		close(stop)
		wg.Wait()
		for g := 0; g < 4; g++ {
			rec.Emit(Ev{"ev": "ConcSweep", "fn": fn, "vals": results[g]})
		}
	}
}
