//go:build verif

package verifharness

import (
	"math/rand"
	"os"
	"testing"
	"testing/synctest"
	"time"
)

// TestDriveC04: the same curve trajectory (an arbitrary prior history, then a constant value)
// is fed to real controllers with the direct, the rate-limited and the default PID algorithm on
// identical fans, under the fake clock. Each run is one trace; TLC checks conformance with the
// exact loop models and the C04 formulas (settling within K(alg) cycles, steady value, step
// bound, monotone approach).
func TestDriveC04(t *testing.T) {
	out := os.Getenv("VERIF_OUT")
	if out == "" {
		t.Skip("VERIF_OUT not set")
	}
	seed := int64(envInt("VERIF_SEED", 1))
	n := envInt("VERIF_N", 10)
	maxPrior := envInt("VERIF_LEN", 3000)
	rec, err := NewRecorder(out)
	must(err)
	defer rec.Close()
	r := rand.New(rand.NewSource(seed))
	for i := 0; i < n; i++ {
		mn, mx := randLimits(r)
		if mn == mx {
			if mx < 255 {
				mx++
			} else {
				mn--
			}
		}
		c := r.Intn(256)
		if r.Intn(5) == 0 {
			c = []int{0, 255, 1, 254}[r.Intn(4)]
		}
		start := r.Intn(256)
		// prior history
		var prior []int
		plen := 0
		switch r.Intn(5) {
		case 0:
			plen = 0
		case 1:
			plen = r.Intn(50)
		default:
			plen = r.Intn(maxPrior)
		}
		kind := r.Intn(5)
		v := r.Intn(256)
		for j := 0; j < plen; j++ {
			switch kind {
			case 0: // idle at 0 ("hours" in virtual time when plen is large)
				prior = append(prior, 0)
			case 1:
				prior = append(prior, 255)
			case 2: // random walk
				v += r.Intn(31) - 15
				if v < 0 {
					v = 0
				}
				if v > 255 {
					v = 255
				}
				prior = append(prior, v)
			case 3: // jumps
				if r.Intn(20) == 0 {
					v = r.Intn(256)
				}
				prior = append(prior, v)
			default: // alternating extremes
				prior = append(prior, []int{0, 255, c}[(j/(1+r.Intn(7)))%3])
			}
		}
		// a constant stretch a few steps away from the limit the history has just driven the loop into (saturated loop
		// state, integral included, is the interesting starting point of the approach)
		if len(prior) > 3 && r.Intn(3) == 0 {
			last := prior[len(prior)-1]
			if last >= 250 {
				c = 255 - (1 + r.Intn(45))
			} else if last <= 5 {
				c = 1 + r.Intn(45)
			}
		}
		m := []int{1, 2, 3, 5, 10, 50, 255}[r.Intn(7)]
		dt := []int{50, 200, 200, 1000, 2000}[r.Intn(5)]
		algs := []AlgSpec{{T: "direct"}, {T: "rate", M: m}, DefaultPid(dt)}
		for _, alg := range algs {
			k := 4
			if alg.T == "rate" {
				k = (255+m-1)/m + 5
			}
			if alg.T == "pid" {
				k = 1240 // K(pid) + margin, see ControllerProps!KPidOf
				if dt <= 50 {
					k = 2540
				}
			}
			synctest.Test(t, func(t *testing.T) {
				spec := FanSpec{Kind: "hwmon", NeverStop: true, HasRpm: false, HasMode: true, CfgMin: ip(mn), CfgMax: ip(mx), N: 10, Alg: alg}
				if i%3 == 1 {
					spec.CfgMin, spec.MeasMin = nil, ip(mn)
				}
				// every other history: a healthy fan with an RPM sensor (the stall logic is part of the closed loop
				// and must stay quiet), windows incl. 1
				healthy := i%2 == 0
				if healthy {
					spec.HasRpm = true
					spec.N = []int{1, 2, 10}[i/2%3]
				}
				rec.NextTrace()
				avg0 := 0.0
				if healthy && (i/2)%2 == 1 {
					avg0 = 1500 // (otherwise 0: no reading yet, the first poll precedes the first cycle)
				}
				ctl := NewCtl(rec, spec, start, 2, avg0)
				defer ctl.Close()
				ctl.EmitInit(Ev{"profile": "C04", "c": c, "prior": len(prior)})
				step := alg.Dt
				if step == 0 {
					step = 200
				}
				poll := func(j int) {
					if healthy && j%5 == 0 { // RPM polls are slower than control cycles
						ctl.Rpm(600+10*ctl.reg("pwm"), true)
					}
				}
				// between the construction of the controller (and its control loop) and the first cycle the daemon spends
				// time: the start-up wait of Run, minutes of fan initialization - regulation starts from the first cycle
				time.Sleep(time.Duration([]int{0, 3400, 0, 120000, 0, 900000}[i%6]) * time.Millisecond)
				for j, cv := range prior {
					time.Sleep(time.Duration(step) * time.Millisecond)
					poll(j)
					ctl.Cycle(cv, step)
				}
				wf := -1
				if i%3 == 2 {
					wf = 2 + r.Intn(20) // one refused PWM write somewhere in the constant stretch: the approach goes on as if nothing happened
				}
				for j := 0; j < k; j++ {
					time.Sleep(time.Duration(step) * time.Millisecond)
					poll(j)
					if j == wf {
						ctl.CycleWriteFault(c, step)
					} else {
						ctl.Cycle(c, step)
					}
				}
			})
		}
	}
}
