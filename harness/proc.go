//go:build verif

package verifharness

import (
	"bufio"
	"bytes"
	"encoding/json"
	"fmt"
	"os"
	"os/exec"
	"path/filepath"
	"strconv"
	"strings"
	"sync"
	"syscall"
	"time"

	fancmd "github.com/markusressel/fan2go/cmd"
	"github.com/markusressel/fan2go/internal/controller"
	"github.com/markusressel/fan2go/internal/util"
)

// ---------------------------------------------------------------------------------------------
// Process level: the real daemon (cmd.Execute -> RunDaemon) runs in a child process (this test
// binary re-executed with VERIF_CHILD=daemon) on a fake hwmon tree of real files, under real
// signals and in real time. The child writes its hook events (unbuffered) to VERIF_CHILD_TRACE;
// the parent adds Begin / Cancel / Final events.
// ---------------------------------------------------------------------------------------------

// ChildMain is called from TestMain when VERIF_CHILD is set. It never returns.
func ChildMain() {
	switch os.Getenv("VERIF_CHILD") {
	case "daemon", "cli":
		if p := os.Getenv("VERIF_CHILD_TRACE"); p != "" {
			f, err := os.OpenFile(p, os.O_CREATE|os.O_WRONLY|os.O_APPEND, 0644)
			must(err)
			var mu sync.Mutex
			seq := 0
			controller.VerifTrace = func(fanId string, event string, args ...int) {
				if event == "RpmBegin" || event == "RpmEnd" || event == "CycleBegin" {
					return
				}
				if args == nil {
					args = []int{}
				}
				mu.Lock()
				seq++
				b, _ := json.Marshal(Ev{"ev": event, "fan": fanId, "a": args, "cseq": seq})
				f.Write(append(b, '\n'))
				mu.Unlock()
			}
		}
		var args []string
		must(json.Unmarshal([]byte(os.Getenv("VERIF_CHILD_ARGS")), &args))
		os.Args = append([]string{"fan2go"}, args...)
		fancmd.Execute()
		os.Exit(0)
	}
	if os.Getenv("VERIF_CHILD") == "c19conc" {
		// many monitors / control loops run commands at the same time (one goroutine each): healthy ones and ones that
		// run into their deadline together; a runtime abort or panic ends this process with a non-zero status
		var args []string
		must(json.Unmarshal([]byte(os.Getenv("VERIF_CHILD_ARGS")), &args))
		healthy, hanging := args[0], args[1]
		// rounds with a common start: the commands of one round run into their (equal) deadlines at the same moment
		for round := 0; round < 25; round++ {
			var wg sync.WaitGroup
			gate := make(chan struct{})
			for g := 0; g < 16; g++ {
				exe := hanging
				if g%4 == 3 {
					exe = healthy
				}
				wg.Add(1)
				go func() {
					defer wg.Done()
					<-gate
					_, _ = util.SafeCmdExecution(exe, nil, 100*time.Millisecond)
				}()
			}
			close(gate)
			wg.Wait()
		}
		fmt.Println("c19conc done")
		os.Exit(0)
	}
	fmt.Fprintln(os.Stderr, "unknown VERIF_CHILD mode")
	os.Exit(3)
}

type ProcFan struct {
	ID        string
	Chip      string // chip directory / platform
	Channel   int
	HasMode   bool
	NeverStop bool
	Pwm0      int
	Mode0     int
	MinPwm    *int
	MaxPwm    *int
	PwmMap    bool // configure an identity-like pwmMap (no sweep)
	Alg       string
	// Cmd: a cmd fan (scripts over a real file) whose setPwm takes SlowMs milliseconds
	Cmd    bool
	SlowMs int
}

type ProcCfg struct {
	Dir      string
	Fans     []ProcFan
	Parallel bool
	Temp     int // milli degrees in the file sensor
	Extra    string
}

func (c *ProcCfg) chipDir(chip string) string { return filepath.Join(c.Dir, "hwmon", chip) }

func (c *ProcCfg) RegPath(f ProcFan, reg string) string {
	if f.Cmd {
		return filepath.Join(c.Dir, "cmd_"+f.ID, reg)
	}
	switch reg {
	case "pwm":
		return filepath.Join(c.chipDir(f.Chip), fmt.Sprintf("pwm%d", f.Channel))
	case "mode":
		return filepath.Join(c.chipDir(f.Chip), fmt.Sprintf("pwm%d_enable", f.Channel))
	case "rpm":
		return filepath.Join(c.chipDir(f.Chip), fmt.Sprintf("fan%d_input", f.Channel))
	}
	panic(reg)
}

func writeInt(path string, v int) { must(os.WriteFile(path, []byte(strconv.Itoa(v)), 0644)) }

// Materialize creates the fake tree and the configuration file; returns the config path.
func (c *ProcCfg) Materialize() string {
	root := filepath.Join(c.Dir, "hwmon")
	seen := map[string]bool{}
	var order []string
	for _, f := range c.Fans {
		if f.Cmd {
			d := filepath.Join(c.Dir, "cmd_"+f.ID)
			must(os.MkdirAll(d, 0755))
			writeInt(filepath.Join(d, "pwm"), f.Pwm0)
			writeInt(filepath.Join(d, "rpm"), 1200)
			writeScript(filepath.Join(d, "set.sh"), fmt.Sprintf("sleep %d.%03d\nprintf '%%s' \"$1\" > %s\n", f.SlowMs/1000, f.SlowMs%1000, filepath.Join(d, "pwm")))
			writeScript(filepath.Join(d, "get.sh"), fmt.Sprintf("cat %s\n", filepath.Join(d, "pwm")))
			writeScript(filepath.Join(d, "rpm.sh"), fmt.Sprintf("cat %s\n", filepath.Join(d, "rpm")))
			continue
		}
		d := c.chipDir(f.Chip)
		must(os.MkdirAll(d, 0755))
		if !seen[f.Chip] {
			seen[f.Chip] = true
			order = append(order, f.Chip)
			must(os.WriteFile(filepath.Join(d, "name"), []byte(f.Chip+"\n"), 0644))
		}
		writeInt(c.RegPath(f, "pwm"), f.Pwm0)
		if f.HasMode {
			writeInt(c.RegPath(f, "mode"), f.Mode0)
		}
		writeInt(c.RegPath(f, "rpm"), 1200)
	}
	must(os.MkdirAll(root, 0755))
	must(os.WriteFile(filepath.Join(root, "order"), []byte(strings.Join(order, "\n")+"\n"), 0644))
	writeInt(filepath.Join(c.Dir, "temp"), c.Temp)
	var b strings.Builder
	fmt.Fprintf(&b, "dbPath: %s\n", filepath.Join(c.Dir, "fan2go.db"))
	fmt.Fprintf(&b, "runFanInitializationInParallel: %v\n", c.Parallel)
	b.WriteString("tempSensorPollingRate: 100ms\nrpmPollingRate: 200ms\ncontrollerAdjustmentTickRate: 100ms\nfanResponseDelay: 0\n")
	b.WriteString(c.Extra)
	b.WriteString("fans:\n")
	for _, f := range c.Fans {
		if f.Cmd {
			d := filepath.Join(c.Dir, "cmd_"+f.ID)
			fmt.Fprintf(&b, "  - id: %s\n    cmd:\n      setPwm:\n        exec: %s\n        args: [\"%%pwm%%\"]\n      getPwm:\n        exec: %s\n      getRpm:\n        exec: %s\n    neverStop: %v\n    curve: c1\n",
				f.ID, filepath.Join(d, "set.sh"), filepath.Join(d, "get.sh"), filepath.Join(d, "rpm.sh"), f.NeverStop)
		} else {
			fmt.Fprintf(&b, "  - id: %s\n    hwmon:\n      platform: %s\n      rpmChannel: %d\n    neverStop: %v\n    curve: c1\n", f.ID, f.Chip, f.Channel, f.NeverStop)
		}
		alg := f.Alg
		if alg == "" {
			alg = "direct"
		}
		fmt.Fprintf(&b, "    controlAlgorithm: %s\n", alg)
		if f.MinPwm != nil {
			fmt.Fprintf(&b, "    minPwm: %d\n", *f.MinPwm)
		}
		if f.MaxPwm != nil {
			fmt.Fprintf(&b, "    maxPwm: %d\n", *f.MaxPwm)
		}
		if f.PwmMap {
			b.WriteString("    pwmMap:\n      0: 0\n      64: 64\n      128: 128\n      192: 192\n      255: 255\n")
		}
	}
	fmt.Fprintf(&b, "sensors:\n  - id: s1\n    file:\n      path: %s\n", filepath.Join(c.Dir, "temp"))
	b.WriteString("curves:\n  - id: c1\n    linear:\n      sensor: s1\n      min: 40\n      max: 80\n")
	p := filepath.Join(c.Dir, "fan2go.yaml")
	must(os.WriteFile(p, []byte(b.String()), 0644))
	return p
}

type ProcResult struct {
	ExitCode int
	Signaled bool
	Output   string
	Events   []Ev
	Panic    bool
	TimedOut bool
	Dur      time.Duration
}

// StartChild starts this test binary as fan2go with the given CLI arguments.
func StartChild(mode string, args []string, hwmonRoot, tracePath string, out *bytes.Buffer) *exec.Cmd {
	self, err := os.Executable()
	must(err)
	cmd := exec.Command(self, "-test.run", "^TestChild$")
	a, _ := json.Marshal(args)
	cmd.Env = append(os.Environ(), "VERIF_CHILD="+mode, "VERIF_CHILD_ARGS="+string(a), "VERIF_HWMON_ROOT="+hwmonRoot,
		"VERIF_CHILD_TRACE="+tracePath, "VERIF_LOG=1", "HOME="+filepath.Dir(hwmonRoot))
	cmd.Stdout = out
	cmd.Stderr = out
	cmd.SysProcAttr = &syscall.SysProcAttr{Setpgid: true}
	must(cmd.Start())
	return cmd
}

func readChildTrace(path string) []Ev {
	f, err := os.Open(path)
	if err != nil {
		return nil
	}
	defer f.Close()
	var evs []Ev
	sc := bufio.NewScanner(f)
	for sc.Scan() {
		var e Ev
		if json.Unmarshal(sc.Bytes(), &e) == nil {
			evs = append(evs, e)
		}
	}
	return evs
}

// waitFor polls the child trace until cond(events) or the deadline.
func waitFor(path string, deadline time.Duration, cond func([]Ev) bool) bool {
	t0 := time.Now()
	for time.Since(t0) < deadline {
		if cond(readChildTrace(path)) {
			return true
		}
		time.Sleep(20 * time.Millisecond)
	}
	return false
}

func countEv(evs []Ev, name string) int {
	n := 0
	for _, e := range evs {
		if e["ev"] == name {
			n++
		}
	}
	return n
}

func waitExit(cmd *exec.Cmd, d time.Duration) (code int, signaled, timedOut bool) {
	done := make(chan error, 1)
	go func() { done <- cmd.Wait() }()
	select {
	case err := <-done:
		if err == nil {
			return 0, false, false
		}
		if ee, ok := err.(*exec.ExitError); ok {
			ws := ee.Sys().(syscall.WaitStatus)
			if ws.Signaled() {
				return -int(ws.Signal()), true, false
			}
			return ws.ExitStatus(), false, false
		}
		return -1, false, false
	case <-time.After(d):
		_ = syscall.Kill(-cmd.Process.Pid, syscall.SIGKILL)
		<-done
		return -9, true, true
	}
}
