//go:build verif

package verifharness

import (
	"fmt"
	"math"
	"math/rand"
	"os"
	"path/filepath"
	"strconv"
	"testing"
	"time"

	"github.com/markusressel/fan2go/internal"
	"github.com/markusressel/fan2go/internal/configuration"
	"github.com/markusressel/fan2go/internal/sensors"
	"github.com/markusressel/fan2go/internal/util"
)

// TestDriveC08: sequences of polls of real hwmon / file / cmd sensors through the real monitor
// poll (internal.updateSensor), with read faults placed by the schedule.
func TestDriveC08(t *testing.T) {
	out := os.Getenv("VERIF_OUT")
	if out == "" {
		t.Skip("VERIF_OUT not set")
	}
	seed := int64(envInt("VERIF_SEED", 1))
	n := envInt("VERIF_N", 20)
	length := envInt("VERIF_LEN", 30)
	timeouts := envInt("VERIF_TIMEOUTS", 0) // number of sequences that include a real 2 s command timeout
	rec, err := NewRecorder(out)
	must(err)
	defer rec.Close()
	r := rand.New(rand.NewSource(seed))
	dir := scratchDir("verif.c08.")
	defer os.RemoveAll(dir)
	env := NewEnv(dir)
	InstallEnv(env)
	defer InstallEnv(nil)
	kinds := []string{"hwmon", "file", "cmd"}
	if os.Getenv("VERIF_NOCMD") != "" {
		kinds = kinds[:2]
	}
	for i := 0; i < n; i++ {
		kind := kinds[i%len(kinds)]
		win := []int{1, 1, 2, 3, 5, 10, 10, 25, 50}[r.Intn(9)]
		configuration.CurrentConfig.TempRollingWindowSize = win
		configuration.CurrentConfig.RpmRollingWindowSize = 2*win + 3 // (independent option, always different)
		id := uniq("c8s")
		sub := filepath.Join(dir, id)
		must(os.MkdirAll(sub, 0755))
		valFile := filepath.Join(sub, "value")
		var sensor sensors.Sensor
		scfg := configuration.SensorConfig{ID: id}
		// hwmon and file sensors read the REAL file here (faults are real: missing / empty / garbage / directory)
		switch kind {
		case "hwmon":
			scfg.HwMon = &configuration.HwMonSensorConfig{Platform: "p", Index: 1, TempInput: valFile}
		case "file":
			scfg.File = &configuration.FileSensorConfig{Path: valFile}
		case "cmd":
			script := filepath.Join(sub, "read.sh")
			writeScript(script, fmt.Sprintf("m=$(cat %s 2>/dev/null)\ncase \"$m\" in\n fail) echo oops >&2; exit 3;;\n failnum) echo 0; exit 3;;\n failnum2) cat %s; echo 'read error' >&2; exit 1;;\n garbage) echo abc;;\n blank) echo ' ';;\n crlf) printf '\\r\\n';;\n tab) printf '\\t\\n';;\n digits) echo '503 Service Unavailable';;\n digits2) echo '2 sensors found, none responding';;\n unit) echo \"$(cat %s) mC\";;\n nan) echo nan;;\n inf) echo inf;;\n -inf) echo -inf;;\n empty) ;;\n sleep) sleep 3; cat %s;;\n *) cat %s;;\nesac\n",
				filepath.Join(sub, "fault"), valFile, valFile, valFile, valFile))
			scfg.Cmd = &configuration.CmdSensorConfig{Exec: script}
		}
		sensor, err = sensors.NewSensor(scfg)
		must(err)
		writeVal := func(s string) { must(os.WriteFile(valFile, []byte(s), 0644)) }
		x0 := 20000 + r.Intn(60000)
		if i%4 == 3 {
			x0 = -30000 + r.Intn(25000) // a sensor below zero (outdoor, freezer): negative readings are readings
		}
		writeVal(strconv.Itoa(x0))
		v0, err0 := sensor.GetValue()
		for retry := 0; retry < 5 && err0 != nil; retry++ { // (a command can fail on a heavily loaded machine)
			time.Sleep(200 * time.Millisecond)
			v0, err0 = sensor.GetValue()
		}
		must(err0)
		sensor.SetMovingAvg(v0) // as initializeSensors does
		rec.NextTrace()
		rec.Emit(Ev{"ev": "Init", "kind": kind, "n": win, "am": milli(sensor.GetMovingAvg())})
		cur := x0
		wantTimeout := kind == "cmd" && timeouts > 0
		for k := 0; k < length; k++ {
			fault := ""
			os.Remove(filepath.Join(sub, "fault"))
			restore := func() {}
			xs := ""
			if r.Intn(4) == 0 || (wantTimeout && k == length/2) {
				switch kind {
				case "hwmon", "file":
					fault = []string{"missing", "empty", "garbage", "dir", "float", "words", "blank", "flicker", "flicker"}[r.Intn(9)]
					switch fault {
					case "flicker":
						// a transient error: the first read of this poll fails, the file itself is fine (whoever reads a
						// second time gets the current reading `cur`)
						writeVal(strconv.Itoa(cur))
						orig := util.VerifReadInt
						nread := 0
						util.VerifReadInt = func(path string) (int, error, bool) {
							if path == valFile {
								nread++
								if nread == 1 {
									return -1, fmt.Errorf("injected transient read error"), true
								}
							}
							return orig(path)
						}
						restore = func() { util.VerifReadInt = orig }
					case "missing":
						os.Remove(valFile)
					case "empty":
						writeVal("")
					case "garbage":
						writeVal("12x\n")
					case "float":
						writeVal("45.5")
					case "words":
						writeVal("45000 mC\n")
					case "blank":
						writeVal(" \n")
					case "dir":
						os.Remove(valFile)
						must(os.Mkdir(valFile, 0755))
						restore = func() { os.Remove(valFile) }
					}
				case "cmd":
					fault = []string{"fail", "garbage", "nan", "inf", "-inf", "empty", "failnum", "failnum2", "digits", "digits2", "unit", "blank", "crlf", "tab"}[r.Intn(14)]
					if wantTimeout && k == length/2 {
						fault = "sleep"
						timeouts--
						wantTimeout = false
					}
					must(os.WriteFile(filepath.Join(sub, "fault"), []byte(fault), 0644))
				}
			} else {
				// a reading: mostly near the previous one, sometimes constant for a while, sometimes a jump
				switch r.Intn(6) {
				case 0:
					cur = r.Intn(120000) - 10000
				case 1, 2:
				default:
					cur += r.Intn(4001) - 2000
				}
				xs = strconv.Itoa(cur)
				if kind == "cmd" && r.Intn(4) == 0 {
					xs = strconv.FormatFloat(float64(cur)+[]float64{0.5, 0.25, 0.125}[r.Intn(3)], 'f', -1, 64)
				}
				if kind != "cmd" && r.Intn(3) == 0 {
					// the same integer in another legal spelling (padding, blank lines, a sign, leading zeros): the file is
					// longer than the number
					writeVal(fmt.Sprintf([]string{"%20d\n", "\n\n  %d  \n\n", "%+d\n", "%019d", "%d\n\n\n\n\n\n\n\n\n\n\n\n\n\n\n\n\n\n\n\n"}[r.Intn(5)], cur))
				} else {
					writeVal(xs)
				}
			}
			errp := internal.VerifUpdateSensor(sensor)
			restore()
			if fault == "flicker" && errp == nil {
				// the poll succeeded after all (a second read): it is judged as a successful poll of the current reading
				fault = ""
				xs = strconv.Itoa(cur)
			}
			if fault == "" && errp != nil {
				// the read of a healthy sensor failed all the same (a command can fail on a heavily loaded machine): what is
				// observed is a failed poll, and it is judged as one
				fault = "unexpected: " + fmtErr(errp)
			}
			a := sensor.GetMovingAvg()
			fin := !math.IsNaN(a) && !math.IsInf(a, 0)
			ev := Ev{"ev": "Poll", "fault": fault, "err": errp != nil, "fin": fin, "am": 0, "xlo": 0, "xhi": 0}
			if fin {
				ev["am"] = milli(a)
			}
			if fault == "" {
				xv, _ := strconv.ParseFloat(xs, 64)
				ev["xlo"] = int(math.Floor(xv * 1000))
				ev["xhi"] = int(math.Ceil(xv * 1000))
			}
			rec.Emit(ev)
		}
	}
}
