//go:build verif

package verifharness

import (
	"context"
	"fmt"
	"net/http"
	"net/http/httptest"
	"os"
	"path/filepath"
	"sync"
	"sync/atomic"
	"testing"
	"testing/synctest"
	"time"

	"github.com/markusressel/fan2go/internal"
	"github.com/markusressel/fan2go/internal/api"
	"github.com/markusressel/fan2go/internal/configuration"
	"github.com/markusressel/fan2go/internal/controller"
	"github.com/markusressel/fan2go/internal/curves"
	"github.com/markusressel/fan2go/internal/fans"
	"github.com/markusressel/fan2go/internal/persistence"
	"github.com/markusressel/fan2go/internal/sensors"
	"github.com/markusressel/fan2go/internal/statistics"
	"github.com/markusressel/fan2go/internal/util"
	"github.com/prometheus/client_golang/prometheus"
)

// TestRaceStress runs every concurrent activity of the daemon at high rate in ONE process that was
// built with -race: sensor monitors, per-fan RPM monitors and control loops (several fans sharing
// one curve and one sensor, one PID curve shared by two fans), REST list and item endpoints,
// Prometheus collectors. The race detector's reports go to GORACE log_path; the parent classifies
// them. A counter file tells how often each pair of activities ran.
func TestRaceStress(t *testing.T) {
	out := os.Getenv("VERIF_OUT")
	if out == "" {
		t.Skip("VERIF_OUT not set")
	}
	dur := time.Duration(envInt("VERIF_STRESS_MS", 4000)) * time.Millisecond
	rec, err := NewRecorder(out)
	must(err)
	rec.Sync = true // the process may be aborted by the runtime: keep what was counted so far
	defer rec.Close()
	dir := scratchDir("verif.race.")
	defer os.RemoveAll(dir)
	nf := 3
	mk := func() RunCfg {
		cfg := RunCfg{Parallel: true, Dir: dir, TickMs: 2, RpmPollMs: 2, Window: 4}
		for k := 0; k < nf; k++ {
			rf := RunFan{ID: []string{"f1", "f2", "f3"}[k], CurveErrAt: -1, Quant: 64, Theta: 10, Pwm0: 100, Mode0: 2, Rest: [3]string{"ok", "ok", "ok"}}
			rf.Spec = FanSpec{Kind: []string{"hwmon", "hwmon", "file"}[k], HasRpm: true, HasMode: k < 2, NeverStop: true, N: 4,
				Alg: []AlgSpec{{T: "direct"}, DefaultPid(0), {T: "rate", M: 5}}[k]}
			rf.CurveID = []string{"rc_lin", "rc_fn", "rc_fn"}[k] // f2 and f3 share the function curve (and through it the PID curve)
			cfg.Fans = append(cfg.Fans, rf)
		}
		return cfg
	}
	var sensorList []sensors.Sensor
	setup := func(env *Env) {
		p := env.Register("s.temp", "sensor/temp", 55000)
		s, err := sensors.NewSensor(configuration.SensorConfig{ID: "rs", File: &configuration.FileSensorConfig{Path: p}})
		must(err)
		s.SetMovingAvg(55000)
		sensors.RegisterSensor(s)
		sensorList = []sensors.Sensor{s}
		for _, cc := range []configuration.CurveConfig{
			{ID: "rc_lin", Linear: &configuration.LinearCurveConfig{Sensor: "rs", Min: 40, Max: 80}},
			{ID: "rc_pid", PID: &configuration.PidCurveConfig{Sensor: "rs", SetPoint: 50, P: -0.05, I: -0.005, D: -0.001}},
			{ID: "rc_fn", Function: &configuration.FunctionCurveConfig{Type: "maximum", Curves: []string{"rc_lin", "rc_pid"}}},
		} {
			c, err := curves.NewSpeedCurve(cc)
			must(err)
			curves.RegisterSpeedCurve(c)
		}
	}
	// 1. characterise the fans once, in a bubble (fast)
	synctest.Test(t, func(t *testing.T) {
		null, _ := NewRecorder(os.DevNull)
		defer null.Close()
		cfg := mk()
		cfg.TickMs, cfg.RpmPollMs = 200, 1000
		cfg.Setup = setup
		h := NewRunHarness(null, cfg)
		ctx, cancel := context.WithCancel(context.Background())
		var mu sync.Mutex
		started := 0
		h.OnEvent = func(n int, fanId, event string) {
			if event == "LoopStarted" {
				mu.Lock()
				started++
				all := started == nf
				mu.Unlock()
				if all {
					cancel()
				}
			}
		}
		h.Start(ctx, nil)
		h.Wait()
		h.Close(false)
		cancel()
	})
	// 2. real time, everything at once
	cfg := mk()
	cfg.Setup = setup
	null, _ := NewRecorder(os.DevNull)
	defer null.Close()
	h := NewRunHarness(null, cfg)
	defer h.Close(false)
	controller.VerifTrace = nil // the hooks themselves must not synchronise the activities
	prometheus.DefaultRegisterer = prometheus.NewRegistry()
	reg := prometheus.NewRegistry()
	var fanList []fans.Fan
	var ctls []controller.FanController
	for _, id := range h.ord {
		fanList = append(fanList, h.fs[id].fan)
		ctls = append(ctls, h.fs[id].ctl)
	}
	var curveList []curves.SpeedCurve
	for _, id := range []string{"rc_lin", "rc_pid", "rc_fn"} {
		c, _ := curves.GetSpeedCurve(id)
		curveList = append(curveList, c)
	}
	reg.MustRegister(statistics.NewFanCollector(fanList), statistics.NewControllerCollector(ctls),
		statistics.NewSensorCollector(sensorList), statistics.NewCurveCollector(curveList))
	_ = persistence.NewPersistence
	rest := api.CreateRestService()
	ctx, cancel := context.WithCancel(context.Background())
	var wg sync.WaitGroup
	counts := map[string]int{}
	var cmu sync.Mutex
	bump := func(k string) { cmu.Lock(); counts[k]++; cmu.Unlock() }
	// sensor monitor (1 ms) and a writer that changes the temperature
	wg.Add(1)
	go func() {
		defer wg.Done()
		_ = internal.NewSensorMonitor(sensorList[0], time.Millisecond).Run(ctx)
	}()
	wg.Add(1)
	go func() {
		defer wg.Done()
		v := 45000
		k := 0
		for ctx.Err() == nil {
			v = 45000 + (v-45000+777)%40000
			h.Env.Set("s.temp", v)
			k++
			if k%12 == 0 {
				h.ReadFault("s.temp", 2) // the sensor is unreadable for a moment, then readable again (while everybody polls it)
			}
			time.Sleep(3 * time.Millisecond)
		}
	}()
	// REST requests and metric scrapes
	get := func(path string) {
		req := httptest.NewRequest(http.MethodGet, path, nil)
		rw := httptest.NewRecorder()
		rest.ServeHTTP(rw, req)
		bump("GET " + path)
	}
	paths := []string{"/fan/", "/fan/f1/", "/fan/f2/", "/sensor/", "/sensor/rs/", "/curve/", "/curve/rc_fn/", "/curve/rc_pid/"}
	if os.Getenv("VERIF_NOFANAPI") != "" {
		// without the fan endpoints the runtime does not abort on the fan's curve-data map, so the other races get their time
		paths = paths[3:]
	}
	for _, path := range paths {
		wg.Add(1)
		go func(p string) {
			defer wg.Done()
			for ctx.Err() == nil {
				get(p)
				time.Sleep(time.Millisecond)
			}
		}(path)
	}
	for k := 0; k < 2; k++ { // two scrapers (two Prometheus servers, or one and a curl): their scrapes overlap
		wg.Add(1)
		go func() {
			defer wg.Done()
			for ctx.Err() == nil {
				_, _ = reg.Gather()
				bump("scrape")
				time.Sleep(time.Millisecond)
			}
		}()
	}
	t0 := time.Now()
	wg.Add(1)
	go func() {
		defer wg.Done()
		for ctx.Err() == nil {
			time.Sleep(300 * time.Millisecond)
			cmu.Lock()
			cp := map[string]int{}
			for k, v := range counts {
				cp[k] = v
			}
			cmu.Unlock()
			rec.Emit(Ev{"ev": "Stress", "ms": int(time.Since(t0) / time.Millisecond), "counts": cp, "final": false})
		}
	}()
	h.Start(ctx, nil)
	time.Sleep(dur + 3500*time.Millisecond) // start-up wait (2 s) + first-second delay + stress
	cancel()
	h.Wait()
	wg.Wait()
	cmu.Lock()
	rec.Emit(Ev{"ev": "Stress", "ms": int(time.Since(t0) / time.Millisecond), "counts": counts, "final": true, "dir": filepath.Base(dir)})
	cmu.Unlock()
}

// TestRaceCold: see below; run in a process of its own (built with -race), reports go to GORACE log_path.
func TestRaceCold(t *testing.T) {
	out := os.Getenv("VERIF_OUT")
	if out == "" {
		t.Skip("VERIF_OUT not set")
	}
	rec, err := NewRecorder(out)
	must(err)
	rec.Sync = true
	defer rec.Close()
	dir := scratchDir("verif.racecold.")
	defer os.RemoveAll(dir)
	env := NewEnv(dir)
	InstallEnv(env)
	defer InstallEnv(nil)
	prometheus.DefaultRegisterer = prometheus.NewRegistry()
	rest := api.CreateRestService()
	t0 := time.Now()
	done := 0
	// cold starts: at daemon start all fans evaluate their (shared) curves for the first time at the same moment,
	// while the sensor monitors and the API are already running. Many rounds, each on FRESH sensor and curve objects,
	// all activities released together - this is where lazily initialised state shows.
	rounds := envInt("VERIF_COLD_ROUNDS", 150)
	for rd := 0; rd < rounds; rd++ {
		sfx := uniq("cold")
		sp := env.Register("s."+sfx, "sensor/"+sfx, 50000+rd*10)
		s, err := sensors.NewSensor(configuration.SensorConfig{ID: "s" + sfx, File: &configuration.FileSensorConfig{Path: sp}})
		must(err)
		s.SetMovingAvg(50000)
		sensors.RegisterSensor(s)
		var cl []curves.SpeedCurve
		for _, cc := range []configuration.CurveConfig{
			{ID: "lin" + sfx, Linear: &configuration.LinearCurveConfig{Sensor: "s" + sfx, Min: 40, Max: 80}},
			{ID: "st" + sfx, Linear: &configuration.LinearCurveConfig{Sensor: "s" + sfx, Steps: map[int]float64{30: 10, 50: 100, 70: 255}}},
			{ID: "fn" + sfx, Function: &configuration.FunctionCurveConfig{Type: "average", Curves: []string{"lin" + sfx, "st" + sfx}}},
			{ID: "top" + sfx, Function: &configuration.FunctionCurveConfig{Type: "maximum", Curves: []string{"fn" + sfx, "lin" + sfx}}},
		} {
			c, err := curves.NewSpeedCurve(cc)
			must(err)
			curves.RegisterSpeedCurve(c)
			cl = append(cl, c)
		}
		creg := prometheus.NewRegistry()
		creg.MustRegister(statistics.NewSensorCollector([]sensors.Sensor{s}), statistics.NewCurveCollector(cl))
		gate := make(chan struct{})
		var cw sync.WaitGroup
		act := func(fn func()) {
			cw.Add(1)
			go func() {
				defer cw.Done()
				<-gate
				for k := 0; k < 3; k++ {
					fn()
				}
			}()
		}
		// the sensor's file is unreadable at every third read: outages begin and end while several activities read it
		var nreads int64
		env.mu.Lock()
		env.OnRead = func(e *Env, name string) (int, error, bool) {
			if name == "s."+sfx && atomic.AddInt64(&nreads, 1)%3 == 0 {
				return 0, fmt.Errorf("injected read error"), true
			}
			return 0, nil, false
		}
		env.mu.Unlock()
		pidc, err := curves.NewSpeedCurve(configuration.CurveConfig{ID: "pid" + sfx, PID: &configuration.PidCurveConfig{Sensor: "s" + sfx, SetPoint: 50, P: -0.05, I: -0.005, D: -0.001}})
		must(err)
		curves.RegisterSpeedCurve(pidc)
		act(func() { _, _ = pidc.Evaluate() }) // a PID curve reads the sensor itself ...
		act(func() { _, _ = pidc.Evaluate() }) // ... from the goroutine of every fan that uses it
		top := cl[3]
		for k := 0; k < 3; k++ { // three fans sharing the top curve
			act(func() { _, _ = top.Evaluate() })
		}
		act(func() { _, _ = cl[2].Evaluate() }) // a fourth fan on the nested curve
		act(func() { _ = internal.VerifUpdateSensor(s) })
		act(func() { _, _ = creg.Gather() })
		act(func() { _, _ = creg.Gather() })
		act(func() {
			req := httptest.NewRequest(http.MethodGet, "/curve/top"+sfx+"/", nil)
			rest.ServeHTTP(httptest.NewRecorder(), req)
		})
		if rd%5 == 0 {
			// command sensors and a command fan: every poll / read-back / RPM read runs an external command, from the
			// goroutine of its monitor or control loop - concurrently, through the shared helper util.SafeCmdExecution
			script := filepath.Join(dir, "cold"+sfx+".sh")
			writeScript(script, "echo 42000\n")
			for k := 0; k < 2; k++ {
				cs, err := sensors.NewSensor(configuration.SensorConfig{ID: fmt.Sprintf("cs%d%s", k, sfx), Cmd: &configuration.CmdSensorConfig{Exec: script}})
				must(err)
				cs.SetMovingAvg(40000)
				sensors.RegisterSensor(cs)
				act(func() { _ = internal.VerifUpdateSensor(cs) })
				// a linear curve on the command sensor, evaluated by two fans while the monitor updates the average
				lc, err := curves.NewSpeedCurve(configuration.CurveConfig{ID: fmt.Sprintf("lcs%d%s", k, sfx), Linear: &configuration.LinearCurveConfig{Sensor: fmt.Sprintf("cs%d%s", k, sfx), Min: 30, Max: 70}})
				must(err)
				curves.RegisterSpeedCurve(lc)
				act(func() { _, _ = lc.Evaluate() })
				act(func() { _, _ = lc.Evaluate() })
			}
			cf, err := fans.NewFan(configuration.FanConfig{ID: "cf" + sfx, Curve: "top" + sfx, Cmd: &configuration.CmdFanConfig{
				SetPwm: &configuration.ExecConfig{Exec: script, Args: []string{"%pwm%"}}, GetPwm: &configuration.ExecConfig{Exec: script},
				GetRpm: &configuration.ExecConfig{Exec: script}}})
			must(err)
			act(func() { _ = cf.SetPwm(100) }) // control loop
			act(func() { _, _ = util.SafeCmdExecution(script, nil, 2*time.Second) })
			// ... and commands that run into their deadline while others are running
			hang := filepath.Join(dir, "coldhang"+sfx+".sh")
			writeScript(hang, "sleep 5\n")
			act(func() { _, _ = util.SafeCmdExecution(hang, nil, 20*time.Millisecond) })
			act(func() { _, _ = util.SafeCmdExecution(hang, nil, 20*time.Millisecond) })
		}
		{
			// sensors and a fan on REAL files (the interposer of the harness is not in the way): polled, scraped and read
			// back at the same time through util.ReadIntFromFile
			rdir := filepath.Join(dir, "real"+sfx)
			must(os.MkdirAll(rdir, 0755))
			var rs []sensors.Sensor
			for k := 0; k < 2; k++ {
				pth := filepath.Join(rdir, fmt.Sprintf("temp%d", k))
				writeInt(pth, 40000+k*987)
				s2, err := sensors.NewSensor(configuration.SensorConfig{ID: fmt.Sprintf("rs%d%s", k, sfx), File: &configuration.FileSensorConfig{Path: pth}})
				must(err)
				s2.SetMovingAvg(40000)
				sensors.RegisterSensor(s2)
				rs = append(rs, s2)
				act(func() { _ = internal.VerifUpdateSensor(s2) })
			}
			rreg := prometheus.NewRegistry()
			rreg.MustRegister(statistics.NewSensorCollector(rs))
			act(func() { _, _ = rreg.Gather() })
			act(func() { _, _ = rreg.Gather() })
			ppath := filepath.Join(rdir, "pwm")
			writeInt(ppath, 123)
			rf, err := fans.NewFan(configuration.FanConfig{ID: "rf" + sfx, Curve: "top" + sfx, File: &configuration.FileFanConfig{Path: ppath}})
			must(err)
			act(func() { _, _ = rf.GetPwm() })
		}
		if rd%5 == 1 {
			// controllers as the daemon's own start-up code builds them (InitializeObjects, initializeFanControllers):
			// several fans WITHOUT a controlAlgorithm (default PID loop), two with rate limits of their own - every
			// controller cycles in its own goroutine; what the start-up code hands to one controller belongs to it alone
			bdir := filepath.Join(dir, "boot"+sfx)
			must(os.MkdirAll(bdir, 0755))
			writeInt(filepath.Join(bdir, "temp"), 61000)
			bc := configuration.Configuration{DbPath: filepath.Join(bdir, "db"), ControllerAdjustmentTickRate: 100 * time.Millisecond,
				TempRollingWindowSize: 5, RpmRollingWindowSize: 5,
				Sensors: []configuration.SensorConfig{{ID: "bs" + sfx, File: &configuration.FileSensorConfig{Path: filepath.Join(bdir, "temp")}}},
				Curves:  []configuration.CurveConfig{{ID: "bc" + sfx, Linear: &configuration.LinearCurveConfig{Sensor: "bs" + sfx, Min: 40, Max: 80}}}}
			for k := 0; k < 5; k++ {
				pp := filepath.Join(bdir, fmt.Sprintf("pwm%d", k))
				writeInt(pp, 100+k)
				fc := configuration.FanConfig{ID: fmt.Sprintf("bf%d%s", k, sfx), Curve: "bc" + sfx, File: &configuration.FileFanConfig{Path: pp}}
				if k >= 3 {
					lim := 3 + 20*(k-3)
					fc.ControlAlgorithm = &configuration.ControlAlgorithmConfig{Direct: &configuration.DirectControlAlgorithmConfig{MaxPwmChangePerCycle: &lim}}
				}
				bc.Fans = append(bc.Fans, fc)
			}
			saved := configuration.CurrentConfig
			configuration.CurrentConfig = bc
			prometheus.DefaultRegisterer = prometheus.NewRegistry() // (the start-up code registers its collectors once per process)
			fanMap, err := internal.InitializeObjects()
			must(err)
			ctls, err := internal.VerifInitializeFanControllers(persistence.NewPersistence(bc.DbPath), fanMap)
			must(err)
			configuration.CurrentConfig = saved
			for _, c := range ctls {
				dc := c.(*controller.DefaultFanController)
				id := map[int]int{}
				for v := 0; v <= 255; v++ {
					id[v] = v
				}
				dc.VerifSetPwmMap(id)
				act(func() { _ = dc.UpdateFanSpeed() })
			}
		}
		close(gate)
		cw.Wait()
		done++
		if done%25 == 0 || done == rounds {
			rec.Emit(Ev{"ev": "Stress", "ms": int(time.Since(t0) / time.Millisecond), "counts": map[string]int{"cold": done}, "final": done == rounds})
		}
	}
}
