//go:build verif

package verifharness

import (
	"bytes"
	"fmt"
	"math/rand"
	"os"
	"path/filepath"
	"strings"
	"testing"
	"time"

	"github.com/markusressel/fan2go/internal/configuration"
	"github.com/markusressel/fan2go/internal/fans"
	"github.com/markusressel/fan2go/internal/sensors"
	"github.com/markusressel/fan2go/internal/util"
)

// ---------------------------------------------------------------------------------------------
// C18: every combination of owner {root, other} x group {root, other} x 512 modes x {direct,
// symlink}; the script leaves a marker when it really runs. The harness runs as root.
// ---------------------------------------------------------------------------------------------

func safeExec(exe string, args []string, timeout time.Duration) (out string, err error, panicked bool) {
	defer func() {
		if p := recover(); p != nil {
			panicked = true
			err = fmt.Errorf("panic: %v", p)
		}
	}()
	out, err = util.SafeCmdExecution(exe, args, timeout)
	return
}

// guarded runs one call of fan2go code with a watchdog: "ok" / "err" / "panic", or "hung" if it has not
// returned after limit (the goroutine is abandoned; the caller must not touch the object again)
func guarded(limit time.Duration, call func() error) (outcome string, dur time.Duration) {
	done := make(chan string, 1)
	t0 := time.Now()
	go func() {
		res := "ok"
		defer func() {
			if p := recover(); p != nil {
				res = "panic"
			}
			done <- res
		}()
		if e := call(); e != nil {
			res = "err"
		}
	}()
	select {
	case r := <-done:
		return r, time.Since(t0)
	case <-time.After(limit):
		return "hung", time.Since(t0)
	}
}

// guardedFair: a call that returned but looks too slow for its 2 s deadline is measured again (up to twice): a
// genuine delay reproduces, a scheduling hiccup of a loaded machine does not; the fastest measurement counts
func guardedFair(limit time.Duration, call func() error) (outcome string, dur time.Duration) {
	outcome, dur = guarded(limit, call)
	for retry := 0; retry < 2 && outcome != "hung" && dur > 2900*time.Millisecond; retry++ {
		if o2, d2 := guarded(limit, call); o2 == "hung" || d2 < dur {
			outcome, dur = o2, d2
		}
	}
	return
}

func TestDriveC18(t *testing.T) {
	out := os.Getenv("VERIF_OUT")
	if out == "" {
		t.Skip("VERIF_OUT not set")
	}
	if os.Geteuid() != 0 {
		t.Skip("needs root to create files of other owners")
	}
	shard, shards := envInt("VERIF_SHARD", 0), envInt("VERIF_SHARDS", 1)
	rec, err := NewRecorder(out)
	must(err)
	defer rec.Close()
	dir := scratchDir("verif.c18.")
	defer os.RemoveAll(dir)
	must(os.Chmod(dir, 0755))
	marker := filepath.Join(dir, "marker")
	script := filepath.Join(dir, "tool.sh")
	link := filepath.Join(dir, "tool-link")
	body := fmt.Sprintf("#!/bin/sh\necho ran >> %s\necho 42\n", marker)
	ran := func() bool {
		_, err := os.Stat(marker)
		os.Remove(marker)
		return err == nil
	}
	setup := func(uid, gid int, mode os.FileMode) {
		os.Remove(script)
		must(os.WriteFile(script, []byte(body), 0700))
		must(os.Chown(script, uid, gid))
		must(os.Chmod(script, mode))
	}
	os.Remove(link)
	must(os.Symlink(script, link))
	must(os.Lchown(link, 1000, 1000)) // the symlink itself belongs to somebody else: only the target counts
	idx := 0
	for _, uid := range []int{0, 1000} {
		for _, gid := range []int{0, 1000} {
			for mode := 0; mode < 512; mode++ {
				for _, via := range []string{"direct", "symlink"} {
					idx++
					if idx%shards != shard {
						continue
					}
					setup(uid, gid, os.FileMode(mode))
					path := script
					if via == "symlink" {
						path = link
					}
					var o string
					var e error
					var pan bool
					api := []string{"safe", "sensor", "fanget", "fanset"}[idx/shards%4]
					switch api {
					case "safe":
						o, e, pan = safeExec(path, nil, 2*time.Second)
					case "sensor":
						s, _ := sensors.NewSensor(configuration.SensorConfig{ID: "c18s", Cmd: &configuration.CmdSensorConfig{Exec: path}})
						func() {
							defer func() {
								if p := recover(); p != nil {
									pan = true
								}
							}()
							var v float64
							v, e = s.GetValue()
							o = fmt.Sprint(v)
						}()
					case "fanget", "fanset":
						f, _ := fans.NewFan(configuration.FanConfig{ID: "c18f", Cmd: &configuration.CmdFanConfig{
							SetPwm: &configuration.ExecConfig{Exec: path, Args: []string{"%pwm%"}}, GetPwm: &configuration.ExecConfig{Exec: path}}})
						func() {
							defer func() {
								if p := recover(); p != nil {
									pan = true
								}
							}()
							if api == "fanget" {
								var v int
								v, e = f.GetPwm()
								o = fmt.Sprint(v)
							} else {
								e = f.SetPwm(77)
							}
						}()
					}
					rec.Emit(Ev{"ev": "Exec", "api": api, "ownerRoot": uid == 0, "groupRoot": gid == 0, "mode": mode, "via": via,
						"executed": ran(), "err": e != nil, "panic": pan, "anyx": mode&0o111 != 0, "out": strings.TrimSpace(o), "msg": fmtErr(e)})
				}
			}
		}
	}
	// two consecutive executions with a change of ownership / mode in between: the check is repeated
	for k, ch := range [][4]int{{0, 0, 0o755, 0}, {0, 0, 0o755, 1}, {0, 0, 0o755, 2}, {0, 1000, 0o755, 3}, {1000, 0, 0o757, 4}, {0, 0, 0o777, 5}} {
		if k%shards != shard%6 && shards > 1 {
			continue
		}
		setup(ch[0], ch[1], os.FileMode(ch[2]))
		_, e1, p1 := safeExec(script, nil, 2*time.Second)
		r1 := ran()
		a1 := [3]int{ch[0], ch[1], ch[2]}
		// change between the executions
		uid2, gid2, mode2 := ch[0], ch[1], ch[2]
		switch ch[3] {
		case 0:
			uid2 = 1000
		case 1:
			mode2 = 0o757
		case 2:
			gid2, mode2 = 1000, 0o775
		case 3:
			mode2 = 0o775
		case 4:
			uid2, mode2 = 0, 0o755
		case 5:
			mode2 = 0o755
		}
		must(os.Chown(script, uid2, gid2))
		must(os.Chmod(script, os.FileMode(mode2)))
		_, e2, p2 := safeExec(script, nil, 2*time.Second)
		r2 := ran()
		rec.Emit(Ev{"ev": "Exec2",
			"first":  Ev{"ownerRoot": a1[0] == 0, "groupRoot": a1[1] == 0, "mode": a1[2], "executed": r1, "err": e1 != nil, "panic": p1, "anyx": a1[2]&0o111 != 0},
			"second": Ev{"ownerRoot": uid2 == 0, "groupRoot": gid2 == 0, "mode": mode2, "executed": r2, "err": e2 != nil, "panic": p2, "anyx": mode2&0o111 != 0}})
	}
	// executables named without a directory: the operating system finds them through $PATH, so the file that would run
	// is the one in a $PATH directory - whatever a file of the same name in the working directory looks like
	if shard == 0 {
		pathDir := filepath.Join(dir, "pathdir")
		cwdDir := filepath.Join(dir, "cwd")
		must(os.MkdirAll(pathDir, 0755))
		must(os.MkdirAll(cwdDir, 0755))
		oldPath, oldWd := os.Getenv("PATH"), ""
		if wd, err := os.Getwd(); err == nil {
			oldWd = wd
		}
		os.Setenv("PATH", pathDir+":"+oldPath)
		must(os.Chdir(cwdDir))
		name := "verif-c18-tool"
		cwdMarker := filepath.Join(dir, "marker-cwd")
		put := func(d string, uid, gid int, mode os.FileMode) {
			p := filepath.Join(d, name)
			os.Remove(p)
			b := body
			if d == cwdDir {
				b = fmt.Sprintf("#!/bin/sh\necho ran >> %s\necho 43\n", cwdMarker)
			}
			must(os.WriteFile(p, []byte(b), 0700))
			must(os.Chown(p, uid, gid))
			must(os.Chmod(p, mode))
		}
		for _, inPath := range [][3]int{{0, 0, 0o755}, {1000, 1000, 0o755}, {0, 0, 0o777}, {0, 1000, 0o775}} {
			for _, inCwd := range [][3]int{{-1, 0, 0}, {0, 0, 0o755}, {1000, 1000, 0o777}} {
				put(pathDir, inPath[0], inPath[1], os.FileMode(inPath[2]))
				os.Remove(filepath.Join(cwdDir, name))
				if inCwd[0] >= 0 {
					put(cwdDir, inCwd[0], inCwd[1], os.FileMode(inCwd[2]))
				}
				os.Remove(cwdMarker)
				_, e, pan := safeExec(name, nil, 2*time.Second)
				_, cwdErr := os.Stat(cwdMarker)
				// the file that ran (if any) is the one in $PATH: its attributes decide
				rec.Emit(Ev{"ev": "ExecBare", "ownerRoot": inPath[0] == 0, "groupRoot": inPath[1] == 0, "mode": inPath[2], "executed": ran(), "cwdExecuted": cwdErr == nil,
					"err": e != nil, "panic": pan, "cwdCopy": inCwd[0] >= 0, "cwdOwnerRoot": inCwd[0] == 0, "cwdMode": inCwd[2]})
			}
		}
		// relative paths: the file that is examined and the file that runs are the same file - also when a file of the
		// same relative name exists below the executable's own directory (or anywhere else a working directory could be)
		rel := filepath.Join("tools", "verif-rel.sh")
		markA, markB := filepath.Join(dir, "marker-rel-a"), filepath.Join(dir, "marker-rel-b")
		putRel := func(p, marker string, uid, gid int, mode os.FileMode) {
			must(os.MkdirAll(filepath.Dir(p), 0755))
			os.Remove(p)
			must(os.WriteFile(p, []byte(fmt.Sprintf("#!/bin/sh\necho ran >> %s\necho 42\n", marker)), 0700))
			must(os.Chown(p, uid, gid))
			must(os.Chmod(p, mode))
		}
		for _, named := range [][3]int{{0, 0, 0o755}, {1000, 1000, 0o755}, {0, 0, 0o757}} {
			for _, other := range [][3]int{{1000, 1000, 0o777}, {0, 0, 0o755}} {
				putRel(filepath.Join(cwdDir, rel), markA, named[0], named[1], os.FileMode(named[2]))
				putRel(filepath.Join(cwdDir, "tools", rel), markB, other[0], other[1], os.FileMode(other[2])) // <cwd>/tools/tools/verif-rel.sh
				os.Remove(markA)
				os.Remove(markB)
				_, e, pan := safeExec(rel, nil, 2*time.Second)
				_, ea := os.Stat(markA)
				_, eb := os.Stat(markB)
				rec.Emit(Ev{"ev": "ExecRel", "ownerRoot": named[0] == 0, "groupRoot": named[1] == 0, "mode": named[2], "executed": ea == nil,
					"otherExecuted": eb == nil, "err": e != nil, "panic": pan})
			}
		}
		// ".." behind a symbolic link to a directory: the kernel resolves the link first, a purely lexical clean-up of the
		// path does not - what is examined must be the file the kernel runs (base/current -> releases/v2, so that
		// base/current/../tool.sh is base/releases/tool.sh, not base/tool.sh)
		base := filepath.Join(dir, "dotdot")
		must(os.MkdirAll(filepath.Join(base, "releases", "v2"), 0755))
		os.Remove(filepath.Join(base, "current"))
		must(os.Symlink(filepath.Join("releases", "v2"), filepath.Join(base, "current")))
		markD, markE := filepath.Join(dir, "marker-dd-lexical"), filepath.Join(dir, "marker-dd-real")
		for _, realAttr := range [][3]int{{1000, 1000, 0o777}, {0, 0, 0o755}, {0, 1000, 0o775}} {
			putRel(filepath.Join(base, "tool.sh"), markD, 0, 0, 0o755)                                                    // what a lexical clean-up finds
			putRel(filepath.Join(base, "releases", "tool.sh"), markE, realAttr[0], realAttr[1], os.FileMode(realAttr[2])) // what runs
			os.Remove(markD)
			os.Remove(markE)
			_, e, pan := safeExec(base+"/current/../tool.sh", nil, 2*time.Second) // (not filepath.Join: it would clean the path lexically)
			_, ed := os.Stat(markD)
			_, ee := os.Stat(markE)
			rec.Emit(Ev{"ev": "ExecRel", "ownerRoot": realAttr[0] == 0, "groupRoot": realAttr[1] == 0, "mode": realAttr[2], "executed": ee == nil,
				"otherExecuted": ed == nil, "err": e != nil, "panic": pan})
		}
		// a file that is busy (open for writing: the kernel refuses to start it) and becomes unsafe a moment later is never
		// run: whatever is tried again must be examined again
		busy := filepath.Join(cwdDir, "verif-busy.sh")
		markC := filepath.Join(dir, "marker-busy")
		for rep := 0; rep < 3; rep++ {
			putRel(busy, markC, 0, 0, 0o755)
			os.Remove(markC)
			w, err := os.OpenFile(busy, os.O_WRONLY, 0)
			must(err)
			doneCh := make(chan bool, 1)
			go func() {
				_, e, _ := safeExec(busy, nil, 2*time.Second)
				doneCh <- e != nil
			}()
			time.Sleep(time.Duration(20+20*rep) * time.Millisecond)
			must(os.Chown(busy, 1000, 1000))
			must(os.Chmod(busy, 0o777))
			w.Close()
			failed := <-doneCh
			time.Sleep(50 * time.Millisecond)
			_, ec := os.Stat(markC)
			rec.Emit(Ev{"ev": "ExecBusy", "executed": ec == nil, "err": failed})
		}
		os.Setenv("PATH", oldPath)
		if oldWd != "" {
			_ = os.Chdir(oldWd)
		}
	}
	// the entry points of the program: every command that can end up running a configured executable - the daemon, `fan2go
	// sensor`, `fan2go fan ... speed` - loads the configuration file first; the file's own ownership / mode must have been
	// checked before any executable it names is run (real processes: this binary re-executed into cmd.Execute)
	if shard == 1%shards {
		cliDir := filepath.Join(dir, "cli")
		must(os.MkdirAll(cliDir, 0755))
		cliMarker := filepath.Join(cliDir, "marker")
		tool := filepath.Join(cliDir, "tool.sh")
		must(os.WriteFile(tool, []byte(fmt.Sprintf("#!/bin/sh\necho ran >> %s\necho 42\n", cliMarker)), 0755))
		writeInt(filepath.Join(cliDir, "temp"), 50000)
		writeInt(filepath.Join(cliDir, "pwm"), 100)
		cfgFile := filepath.Join(cliDir, "fan2go.yaml")
		yaml := fmt.Sprintf("dbPath: %s\nsensors:\n  - id: s1\n    file:\n      path: %s\n  - id: s2\n    cmd:\n      exec: %s\ncurves:\n  - id: c1\n    linear:\n      sensor: s1\n      min: 40\n      max: 80\n  - id: c2\n    linear:\n      sensor: s2\n      min: 40\n      max: 80\nfans:\n  - id: f1\n    curve: c1\n    file:\n      path: %s\n  - id: f2\n    curve: c2\n    cmd:\n      setPwm:\n        exec: %s\n        args: [\"%%pwm%%\"]\n      getPwm:\n        exec: %s\n",
			filepath.Join(cliDir, "cli.db"), filepath.Join(cliDir, "temp"), tool, filepath.Join(cliDir, "pwm"), tool, tool)
		entries := [][]string{{"sensor", "--id", "s2"}, {"fan", "--id", "f2", "speed"}, {"fan", "--id", "f2", "speed", "120"}, {}}
		for _, perm := range [][3]int{{0, 0, 0o644}, {1000, 0, 0o644}, {0, 0, 0o666}, {0, 1000, 0o664}, {1000, 1000, 0o600}} {
			for _, entry := range entries {
				daemon := len(entry) == 0
				if daemon && perm[0] == 0 && perm[1] == 0 && perm[2] == 0o644 {
					continue // (an accepted configuration would really start the daemon; that is the subject of C03 / C15)
				}
				must(os.WriteFile(cfgFile, []byte(yaml), 0600))
				must(os.Chown(cfgFile, perm[0], perm[1]))
				must(os.Chmod(cfgFile, os.FileMode(perm[2])))
				os.Remove(cliMarker)
				var outb bytes.Buffer
				args := append(append([]string{}, entry...), "-c", cfgFile)
				cmd := StartChild("cli", args, filepath.Join(cliDir, "nohwmon"), filepath.Join(cliDir, "cli.trace"), &outb)
				code, _, timedOut := waitExit(cmd, 6*time.Second)
				_, merr := os.Stat(cliMarker)
				rec.Emit(Ev{"ev": "CliExec", "entry": strings.Join(entry, " "), "ownerRoot": perm[0] == 0, "groupRoot": perm[1] == 0, "mode": perm[2],
					"executed": merr == nil, "exit": code, "timedOut": timedOut, "out": tailStr(outb.String(), 200)})
			}
		}
	}
	// the configuration file itself: checked iff it declares a cmd sensor or fan
	if shard == 0 {
		cfgFile := filepath.Join(dir, "fan2go.yaml")
		for _, decl := range []string{"none", "cmdsensor", "cmdsensorUsed", "cmdfan", "cmdfanOnly"} {
			for _, perm := range [][3]int{{0, 0, 0o644}, {1000, 0, 0o644}, {0, 1000, 0o664}, {0, 0, 0o646}, {0, 1000, 0o644}, {0, 0, 0o600}} {
				must(os.WriteFile(cfgFile, []byte("# test\n"), 0600))
				must(os.Chown(cfgFile, perm[0], perm[1]))
				must(os.Chmod(cfgFile, os.FileMode(perm[2])))
				cc := configuration.Configuration{
					Sensors: []configuration.SensorConfig{{ID: "s", File: &configuration.FileSensorConfig{Path: "/dev/null"}}},
					Curves:  []configuration.CurveConfig{{ID: "c", Linear: &configuration.LinearCurveConfig{Sensor: "s", Min: 1, Max: 2}}},
					Fans:    []configuration.FanConfig{{ID: "f", Curve: "c", File: &configuration.FileFanConfig{Path: "/dev/null"}}},
				}
				switch decl {
				case "cmdsensor":
					cc.Sensors = append(cc.Sensors, configuration.SensorConfig{ID: "s2", Cmd: &configuration.CmdSensorConfig{Exec: "/bin/true"}})
				case "cmdsensorUsed": // the command sensor is the one the curve reads
					cc.Sensors = []configuration.SensorConfig{{ID: "s", Cmd: &configuration.CmdSensorConfig{Exec: "/bin/true"}}}
				case "cmdfanOnly": // the command fan is the only fan
					cc.Fans = []configuration.FanConfig{{ID: "f", Curve: "c", Cmd: &configuration.CmdFanConfig{
						SetPwm: &configuration.ExecConfig{Exec: "/bin/true"}, GetPwm: &configuration.ExecConfig{Exec: "/bin/true"}}}}
				case "cmdfan":
					cc.Fans = append(cc.Fans, configuration.FanConfig{ID: "f2", Curve: "c", Cmd: &configuration.CmdFanConfig{
						SetPwm: &configuration.ExecConfig{Exec: "/bin/true"}, GetPwm: &configuration.ExecConfig{Exec: "/bin/true"}}})
				}
				configuration.CurrentConfig = cc
				e := configuration.Validate(cfgFile)
				rec.Emit(Ev{"ev": "CfgFile", "declares": decl != "none", "ownerRoot": perm[0] == 0, "groupRoot": perm[1] == 0, "mode": perm[2], "err": e != nil})
			}
		}
	}
}

// ---------------------------------------------------------------------------------------------
// C19: one real script per failure mode, real time.
// ---------------------------------------------------------------------------------------------

func TestDriveC19(t *testing.T) {
	out := os.Getenv("VERIF_OUT")
	if out == "" {
		t.Skip("VERIF_OUT not set")
	}
	reps := envInt("VERIF_N", 1)
	shard, shards := envInt("VERIF_SHARD", 0), envInt("VERIF_SHARDS", 1)
	rec, err := NewRecorder(out)
	must(err)
	rec.Sync = true // a panic in a goroutine of os/exec cannot be recovered: keep what was recorded until then
	defer rec.Close()
	dir := scratchDir("verif.c19.")
	defer os.RemoveAll(dir)
	must(os.Chmod(dir, 0755))
	mk := func(name, body string, mode os.FileMode) string {
		p := filepath.Join(dir, name)
		must(os.WriteFile(p, []byte(body), 0755))
		must(os.Chmod(p, mode))
		return p
	}
	modes := []struct {
		name, path string
	}{
		{"ok", mk("ok.sh", "#!/bin/sh\necho 42\n", 0755)},
		{"okTrim", mk("oktrim.sh", "#!/bin/sh\nprintf '\\n\\n 17.5 \\n\\n'\n", 0755)},
		{"exit3", mk("exit3.sh", "#!/bin/sh\necho partial\necho problem >&2\nexit 3\n", 0755)},
		{"exit1silent", mk("exit1.sh", "#!/bin/sh\nexit 1\n", 0755)},
		{"killed", mk("killed.sh", "#!/bin/sh\nkill -9 $$\n", 0755)},
		{"notExecutable", mk("noexec.sh", "#!/bin/sh\necho 1\n", 0644)},
		{"badFormat", mk("badformat", "\x00\x01\x02 not a program\n", 0755)},
		{"missing", filepath.Join(dir, "does-not-exist")},
		{"badInterpreter", mk("badinterp.sh", "#!/nonexistent/interpreter\necho 1\n", 0755)},
		{"sleepPastDeadline", mk("sleep.sh", "#!/bin/sh\nsleep 30\necho 5\n", 0755)},
		{"execSleep", mk("execsleep.sh", "#!/bin/sh\nexec sleep 30\n", 0755)},
		{"grandchildHoldsStdout", mk("grandchild.sh", "#!/bin/sh\nsleep 6 &\necho 5\n", 0755)},
		{"ignoresTerm", mk("ignoreterm.sh", "#!/bin/sh\ntrap '' TERM INT\nsleep 30\n", 0755)},
		{"empty", mk("empty.sh", "#!/bin/sh\nexit 0\n", 0755)},
		{"garbage", mk("garbage.sh", "#!/bin/sh\necho 'not a number'\n", 0755)},
		{"huge", mk("huge.sh", "#!/bin/sh\nhead -c 3000000 /dev/zero | tr '\\0' '7'\n", 0755)},
		{"hugeThenSleep", mk("hugesleep.sh", "#!/bin/sh\nhead -c 300000 /dev/zero | tr '\\0' '7'\nsleep 30\n", 0755)},
		// what ends up on stderr / how stdout ends must not matter either
		{"stderrNoNewline", mk("errnonl.sh", "#!/bin/sh\nprintf 'bus busy' >&2\nexit 1\n", 0755)},
		{"stderrBlankLines", mk("errblank.sh", "#!/bin/sh\nprintf '\\n\\n' >&2\nexit 2\n", 0755)},
		{"stderrHuge", mk("errhuge.sh", "#!/bin/sh\nhead -c 400000 /dev/zero | tr '\\0' 'e' >&2\nexit 2\n", 0755)},
		{"stderrBinary", mk("errbin.sh", "#!/bin/sh\nprintf '\\377\\376%%s%%d\\000x' >&2\nexit 4\n", 0755)},
		{"killedWithStderr", mk("killerr.sh", "#!/bin/sh\nprintf 'dying' >&2\nkill -9 $$\n", 0755)},
		{"termSelf", mk("termself.sh", "#!/bin/sh\necho 3\nkill -TERM $$\nsleep 1\n", 0755)},
		{"okWithStderr", mk("okerr.sh", "#!/bin/sh\nprintf 'warning: slow bus' >&2\necho 42\n", 0755)},
		{"okNoNewline", mk("oknonl.sh", "#!/bin/sh\nprintf 42\n", 0755)},
		{"closesStdoutThenSleeps", mk("closesleep.sh", "#!/bin/sh\necho 1\nexec >&- 2>&-\nsleep 30\n", 0755)},
		{"readsStdin", mk("stdin.sh", "#!/bin/sh\nread x\necho 4${x}2\n", 0755)},
		{"exit255", mk("exit255.sh", "#!/bin/sh\nexit 255\n", 0755)},
		// paths that cannot even be examined
		{"symlinkLoop", func() string {
			a, b := filepath.Join(dir, "loop-a"), filepath.Join(dir, "loop-b")
			_ = os.Symlink(a, b)
			_ = os.Symlink(b, a)
			return a
		}()},
		{"danglingSymlink", func() string {
			l := filepath.Join(dir, "dangling")
			_ = os.Symlink(filepath.Join(dir, "nowhere"), l)
			return l
		}()},
		{"parentIsFile", filepath.Join(mk("plainfile", "x\n", 0644), "tool.sh")},
		{"nameTooLong", filepath.Join(dir, strings.Repeat("n", 300))},
		{"directory", dir},
		{"emptyName", ""},
	}
	timeouts := []int{200, 500, 1000, 2000}
	idx := 0
	for rep := 0; rep < reps; rep++ {
		for _, m := range modes {
			for _, to := range timeouts {
				idx++
				if idx%shards != shard {
					continue
				}
				t0 := time.Now()
				o, e, pan := safeExec(m.path, nil, time.Duration(to)*time.Millisecond)
				dur := time.Since(t0)
				// a call that looks too slow is measured again (up to twice): a genuine hang reproduces,
				// a scheduling hiccup of a loaded machine does not; the fastest measurement counts
				for retry := 0; retry < 2 && dur > time.Duration(to+900)*time.Millisecond; retry++ {
					t1 := time.Now()
					o2, e2, pan2 := safeExec(m.path, nil, time.Duration(to)*time.Millisecond)
					if d2 := time.Since(t1); d2 < dur {
						o, e, pan, dur = o2, e2, pan2, d2
					}
				}
				outcome := "ok"
				if pan {
					outcome = "panic"
				} else if e != nil {
					outcome = "err"
				}
				trimmed := o == strings.Trim(o, "\n")
				rec.Emit(Ev{"ev": "Call", "mode": m.name, "timeout": to, "dur": int(dur / time.Millisecond), "outcome": outcome,
					"outlen": len(o), "trimmed": trimmed, "sample": sampleStr(o)})
			}
		}
	}
	// concurrency: sensor monitors, RPM monitors and control loops call the helper from their own goroutines; 16 of them in a
	// child process, 12 on commands that run into their deadline at the same moments. The child must end by itself, status 0.
	if shard == 1%shards {
		for rep := 0; rep < 3+reps; rep++ {
			var outb bytes.Buffer
			t0 := time.Now()
			cmd := StartChild("c19conc", []string{modes[0].path, modes[9].path}, filepath.Join(dir, "nohwmon"), filepath.Join(dir, "conc.trace"), &outb)
			code, _, timedOut := waitExit(cmd, 30*time.Second)
			outcome := "ok"
			if timedOut {
				outcome = "hung"
			} else if code != 0 || !strings.Contains(outb.String(), "c19conc done") {
				outcome = "panic"
			}
			dur := int(time.Since(t0) / time.Millisecond)
			if outcome == "ok" && dur > 9000 {
				dur = 9000 // (start-up and scheduling of a loaded machine: the bound of interest is "ends by itself")
			}
			rec.Emit(Ev{"ev": "Call", "mode": "concurrent", "timeout": 8000, "dur": dur, "outcome": outcome,
				"outlen": 0, "trimmed": true, "sample": tailStr(outb.String(), 300)})
		}
	}
	// the wrappers: cmd sensor / cmd fan use a fixed 2 s timeout. Every object is used for a SEQUENCE of calls
	// (a daemon polls the same sensor for ever): a call that fails must not make a later one hang or crash.
	// One command per object whose behaviour is switched through a file between the calls.
	if shard == 0 {
		mfile := filepath.Join(dir, "wrapmode")
		wrap := mk("wrap.sh", fmt.Sprintf("#!/bin/sh\ncase \"$(cat %s)\" in\n ok) echo 42;;\n garbage) echo 'n/a';;\n blank) echo ' ';;\n crlf) printf '\\r\\n';;\n tab) printf '\\t \\n';;\n digits) echo '503 Service Unavailable';;\n empty) ;;\n exit3) echo partial; echo problem >&2; exit 3;;\n errnonl) printf 'bus busy' >&2; exit 1;;\n okexit) echo 0; exit 3;;\n sleep) sleep 30;;\n grandchild) sleep 6 &\n echo 5;;\n nan) echo nan;;\nesac\n", mfile), 0755)
		setMode := func(m string) { must(os.WriteFile(mfile, []byte(m), 0644)) }
		wmodes := []string{"ok", "garbage", "digits", "empty", "exit3", "errnonl", "okexit", "sleep", "grandchild", "nan", "blank", "crlf", "tab"}
		emit := func(kind, m string, outcome string, dur time.Duration, val string) {
			rec.Emit(Ev{"ev": "Call", "mode": kind + ":" + m, "timeout": 2000, "dur": int(dur / time.Millisecond),
				"outcome": outcome, "outlen": 0, "trimmed": true, "sample": val})
		}
		// two activities use the same command fan at the same time (RPM monitor and control loop are two goroutines): a
		// command of one of them that hangs must not make the other's call take longer than its own deadline allows
		{
			setMode("sleep")
			cf2, err := fans.NewFan(configuration.FanConfig{ID: uniq("c19cf"), Curve: "none", Cmd: &configuration.CmdFanConfig{
				SetPwm: &configuration.ExecConfig{Exec: wrap, Args: []string{"%pwm%"}}, GetPwm: &configuration.ExecConfig{Exec: wrap},
				GetRpm: &configuration.ExecConfig{Exec: wrap}}})
			must(err)
			best := time.Hour
			outcome := "ok"
			for try := 0; try < 3 && best > 2900*time.Millisecond; try++ {
				doneA := make(chan struct{})
				go func() { _, _ = cf2.GetRpm(); close(doneA) }()
				time.Sleep(100 * time.Millisecond)
				oc, d := guarded(12*time.Second, func() error { _, e := cf2.GetPwm(); return e })
				<-doneA
				if oc == "hung" || oc == "panic" {
					outcome, best = oc, d
					break
				}
				outcome = oc
				if d < best {
					best = d
				}
			}
			emit("fan.concurrent", "sleep", outcome, best, "")
		}
		r := rand.New(rand.NewSource(int64(envInt("VERIF_SEED", 1))))
		for seq := 0; seq < 3+reps; seq++ {
			s, err := sensors.NewSensor(configuration.SensorConfig{ID: uniq("c19s"), Cmd: &configuration.CmdSensorConfig{Exec: wrap}})
			must(err)
			cf, err := fans.NewFan(configuration.FanConfig{ID: uniq("c19f"), Curve: "none", Cmd: &configuration.CmdFanConfig{
				SetPwm: &configuration.ExecConfig{Exec: wrap, Args: []string{"%pwm%"}}, GetPwm: &configuration.ExecConfig{Exec: wrap},
				GetRpm: &configuration.ExecConfig{Exec: wrap}}})
			must(err)
			dead := false
			for k := 0; k < 7 && !dead; k++ {
				m := wmodes[r.Intn(len(wmodes))]
				if seq == 0 { // the first sequence visits every behaviour once, a working call after each
					m = wmodes[(k*3+seq)%len(wmodes)]
				}
				for _, mm := range []string{m, "ok"} {
					setMode(mm)
					val := ""
					oc, dur := guardedFair(12*time.Second, func() error {
						v, e := s.GetValue()
						if e == nil {
							val = fmt.Sprint(v)
						}
						return e
					})
					emit("sensor", mm, oc, dur, val)
					if oc == "hung" {
						dead = true
						break
					}
					// the accessors the curves and the API use must stay available whatever the command did
					oc, dur = guarded(5*time.Second, func() error { s.SetMovingAvg(s.GetMovingAvg()); return nil })
					emit("sensoravg", mm, oc, dur, "")
					if oc == "hung" {
						dead = true
						break
					}
					for _, op := range []string{"getPwm", "getRpm", "setPwm"} {
						val = ""
						oc, dur = guardedFair(12*time.Second, func() error {
							switch op {
							case "getPwm":
								v, e := cf.GetPwm()
								val = fmt.Sprint(v)
								return e
							case "getRpm":
								v, e := cf.GetRpm()
								val = fmt.Sprint(v)
								return e
							}
							return cf.SetPwm(100)
						})
						emit("fan."+op, mm, oc, dur, val)
						if oc == "hung" {
							dead = true
							break
						}
					}
					if dead {
						break
					}
				}
			}
		}
	}
}

func sampleStr(s string) string {
	if len(s) > 20 {
		return s[:20]
	}
	return s
}
