//go:build verif

package verifharness

import (
	"encoding/json"
	"fmt"
	"math"
	"math/rand"
	"net/http"
	"net/http/httptest"
	"os"
	"path/filepath"
	"sort"
	"strconv"
	"testing"

	"github.com/markusressel/fan2go/internal"
	"github.com/markusressel/fan2go/internal/api"
	"github.com/markusressel/fan2go/internal/configuration"
	"github.com/markusressel/fan2go/internal/controller"
	"github.com/markusressel/fan2go/internal/curves"
	"github.com/markusressel/fan2go/internal/fans"
	"github.com/markusressel/fan2go/internal/persistence"
	"github.com/markusressel/fan2go/internal/sensors"
	"github.com/prometheus/client_golang/prometheus"
)

// ---------------------------------------------------------------------------------------------
// The whole data path in lock step (spec/System.tla): sensors, curves, fans and controllers are
// built by the daemon's own start-up code (internal.InitializeObjects / initializeFanControllers)
// from a generated configuration - file sensors, linear (min/max and steps) and function curves
// nested up to depth 3, file fans and hwmon fans (fake sysfs tree) with configured limits, several
// fans sharing a curve - and then driven by a random schedule of polls (monitor.updateSensor on a
// new reading or a failing read) and control cycles (controller.UpdateFanSpeed). After every
// step everything observable is recorded: sensor averages, every curve's CurrentValue(), every
// fan's PWM register.
// ---------------------------------------------------------------------------------------------

type sysCurve struct {
	ID      string   `json:"id"`
	T       string   `json:"t"` // lin | steps | fn
	Sensor  string   `json:"sensor"`
	Mn      int      `json:"mn"`
	Mx      int      `json:"mx"`
	Steps   [][2]int `json:"steps"`
	Fn      string   `json:"fn"`
	Members []string `json:"members"`
	Cur     int      `json:"cur"`
}

func TestDriveSystem(t *testing.T) {
	out := os.Getenv("VERIF_OUT")
	if out == "" {
		t.Skip("VERIF_OUT not set")
	}
	seed := int64(envInt("VERIF_SEED", 1))
	n := envInt("VERIF_N", 10)
	length := envInt("VERIF_LEN", 60)
	rec, err := NewRecorder(out)
	must(err)
	defer rec.Close()
	r := rand.New(rand.NewSource(seed))
	for i := 0; i < n; i++ {
		runSystemScenario(rec, r, i, length)
	}
}

func runSystemScenario(rec *Recorder, r *rand.Rand, idx, length int) {
	dir := scratchDir("verif.sys.")
	defer os.RemoveAll(dir)
	root := filepath.Join(dir, "hwmon")
	chip := filepath.Join(root, "chipa")
	must(os.MkdirAll(chip, 0755))
	must(os.WriteFile(filepath.Join(chip, "name"), []byte("chipa\n"), 0644))
	for k := 1; k <= 3; k++ {
		writeInt(filepath.Join(chip, fmt.Sprintf("fan%d_input", k)), 1200)
		writeInt(filepath.Join(chip, fmt.Sprintf("pwm%d", k)), 100+k)
		writeInt(filepath.Join(chip, fmt.Sprintf("pwm%d_enable", k)), 1)
	}
	os.Setenv("VERIF_HWMON_ROOT", root)
	mono := idx%4 != 3 // three of four scenarios: only monotone building blocks (C07 applies to the whole graph)
	win := []int{1, 2, 3, 10}[r.Intn(4)]
	pfx := uniq("y")
	var cfg configuration.Configuration
	cfg.DbPath = filepath.Join(dir, "db")
	cfg.TempRollingWindowSize = win
	cfg.RpmRollingWindowSize = 10
	// sensors
	ns := 1 + r.Intn(3)
	sensorIds := []string{}
	tempFile := map[string]string{}
	reading := map[string]int{}
	for k := 0; k < ns; k++ {
		id := fmt.Sprintf("%ss%d", pfx, k+1)
		sensorIds = append(sensorIds, id)
		tempFile[id] = filepath.Join(dir, "temp_"+id)
		reading[id] = 20000 + r.Intn(60000)
		writeInt(tempFile[id], reading[id])
		cfg.Sensors = append(cfg.Sensors, configuration.SensorConfig{ID: id, File: &configuration.FileSensorConfig{Path: tempFile[id]}})
	}
	// curves: leaves first, then function curves over earlier curves
	var cs []sysCurve
	nl := 1 + r.Intn(3)
	for k := 0; k < nl; k++ {
		c := sysCurve{ID: fmt.Sprintf("%sc%d", pfx, len(cs)+1), Sensor: sensorIds[r.Intn(ns)], Steps: [][2]int{}, Members: []string{}}
		if r.Intn(2) == 0 {
			c.T = "lin"
			c.Mn = 20 + r.Intn(40)
			c.Mx = c.Mn + 1 + r.Intn(40)
			cfg.Curves = append(cfg.Curves, configuration.CurveConfig{ID: c.ID, Linear: &configuration.LinearCurveConfig{Sensor: c.Sensor, Min: c.Mn, Max: c.Mx}})
		} else {
			c.T = "steps"
			st := map[int]float64{}
			temps := r.Perm(70)[:1+r.Intn(5)]
			sort.Ints(temps)
			v := r.Intn(100)
			for _, tt := range temps {
				if mono {
					v += r.Intn(80)
					if v > 255 {
						v = 255
					}
				} else {
					v = r.Intn(256)
				}
				st[15+tt] = float64(v)
				c.Steps = append(c.Steps, [2]int{15 + tt, v})
			}
			cfg.Curves = append(cfg.Curves, configuration.CurveConfig{ID: c.ID, Linear: &configuration.LinearCurveConfig{Sensor: c.Sensor, Steps: st}})
		}
		cs = append(cs, c)
	}
	nfn := r.Intn(4)
	for k := 0; k < nfn; k++ {
		c := sysCurve{ID: fmt.Sprintf("%sc%d", pfx, len(cs)+1), T: "fn", Steps: [][2]int{}}
		if mono {
			c.Fn = pick(r, "sum", "average", "minimum", "maximum")
		} else {
			c.Fn = pick(r, "sum", "difference", "delta", "average", "minimum", "maximum")
		}
		nm := 1 + r.Intn(3)
		for j := 0; j < nm; j++ {
			c.Members = append(c.Members, cs[r.Intn(len(cs))].ID)
		}
		cfg.Curves = append(cfg.Curves, configuration.CurveConfig{ID: c.ID, Function: &configuration.FunctionCurveConfig{Type: c.Fn, Curves: append([]string(nil), c.Members...)}})
		cs = append(cs, c)
	}
	// fans: file fans and hwmon fans with configured limits; the second fan often shares the first one's curve
	nf := 1 + r.Intn(3)
	type sysFan struct {
		id, curve string
		pwmFile   string
	}
	var fs []sysFan
	direct := &configuration.ControlAlgorithmConfig{Direct: &configuration.DirectControlAlgorithmConfig{}}
	for k := 0; k < nf; k++ {
		f := sysFan{id: fmt.Sprintf("%sf%d", pfx, k+1), curve: cs[len(cs)-1-r.Intn(1+len(cs)/2)].ID}
		if k == 1 && r.Intn(2) == 0 {
			f.curve = fs[0].curve
		}
		fc := configuration.FanConfig{ID: f.id, Curve: f.curve, ControlAlgorithm: direct}
		if r.Intn(2) == 0 {
			f.pwmFile = filepath.Join(dir, "pwm_"+f.id)
			writeInt(f.pwmFile, 90+k)
			fc.File = &configuration.FileFanConfig{Path: f.pwmFile}
		} else {
			f.pwmFile = filepath.Join(chip, fmt.Sprintf("pwm%d", k+1))
			fc.HwMon = &configuration.HwMonFanConfig{Platform: "chipa", Index: k + 1}
			mn := r.Intn(100)
			mx := mn + r.Intn(256-mn)
			if r.Intn(3) > 0 {
				fc.MinPwm = ip(mn)
			}
			if r.Intn(3) > 0 {
				fc.MaxPwm = ip(mx)
			}
		}
		cfg.Fans = append(cfg.Fans, fc)
		fs = append(fs, f)
	}
	configuration.CurrentConfig = cfg
	// (the daemon and every command validate the configuration first and then build from the SAME object)
	must(configuration.Validate(filepath.Join(dir, "fan2go.yaml")))
	prometheus.DefaultRegisterer = prometheus.NewRegistry()
	fanMap, err := internal.InitializeObjects()
	must(err)
	ctls, err := internal.VerifInitializeFanControllers(persistence.NewPersistence(cfg.DbPath), fanMap)
	must(err)
	ctlOf := map[string]*controller.DefaultFanController{}
	fanOf := map[string]fans.Fan{}
	for f, c := range ctls {
		dc := c.(*controller.DefaultFanController)
		id := map[int]int{}
		for v := 0; v <= 255; v++ {
			id[v] = v
		}
		dc.VerifSetPwmMap(id)
		ctlOf[f.GetId()] = dc
		fanOf[f.GetId()] = f
	}
	am := func(id string) int {
		s, _ := sensors.GetSensor(id)
		return int(math.Floor(s.GetMovingAvg() * 1000))
	}
	curVals := func() []Ev {
		vs := []Ev{}
		for _, c := range cs {
			cv, _ := curves.GetSpeedCurve(c.ID)
			vs = append(vs, Ev{"id": c.ID, "v": cv.CurrentValue()})
		}
		return vs
	}
	pwms := func() []Ev {
		ps := []Ev{}
		for _, f := range fs {
			ps = append(ps, Ev{"id": f.id, "v": readIntFile(f.pwmFile)})
		}
		return ps
	}
	// the REST API as an observer: what GET /sensor/ and GET /curve/ serve must be the state at that moment
	rest := api.CreateRestService()
	apiView := func() Ev {
		get := func(path string) map[string]map[string]any {
			rw := httptest.NewRecorder()
			rest.ServeHTTP(rw, httptest.NewRequest(http.MethodGet, path, nil))
			out := map[string]map[string]any{}
			_ = json.Unmarshal(rw.Body.Bytes(), &out)
			return out
		}
		sv, cv := get("/sensor/"), get("/curve/")
		se, ce := []Ev{}, []Ev{}
		for _, id := range sensorIds {
			a := -1 << 30
			if o, ok := sv[id]; ok {
				if f, ok := o["movingAvg"].(float64); ok {
					a = int(math.Floor(f * 1000))
				}
			}
			se = append(se, Ev{"id": id, "am": a})
		}
		for _, c := range cs {
			v := -1
			if o, ok := cv[c.ID]; ok {
				if f, ok := o["value"].(float64); ok {
					v = int(f)
				}
			}
			ce = append(ce, Ev{"id": c.ID, "v": v})
		}
		return Ev{"sensors": se, "curves": ce}
	}
	rec.NextTrace()
	{
		var se, fe []Ev
		for _, id := range sensorIds {
			se = append(se, Ev{"id": id, "am": am(id)})
		}
		for k := range cs {
			cv, _ := curves.GetSpeedCurve(cs[k].ID)
			cs[k].Cur = cv.CurrentValue()
		}
		for _, f := range fs {
			fe = append(fe, Ev{"id": f.id, "curve": f.curve, "gmin": fanOf[f.id].GetMinPwm(), "mx": fanOf[f.id].GetMaxPwm()})
		}
		rec.Emit(Ev{"ev": "SysInit", "win": win, "sensors": se, "curves": cs, "fans": fe, "mono": mono})
	}
	// schedule: stretches of rising temperatures, falling temperatures, noise; cycles of random fans in between
	trend := 1
	for step := 0; step < length; step++ {
		if r.Intn(12) == 0 {
			trend = r.Intn(3) - 1
		}
		if r.Intn(5) < 3 {
			sid := sensorIds[r.Intn(ns)]
			s, _ := sensors.GetSensor(sid)
			fault := ""
			xs := ""
			if r.Intn(8) == 0 {
				fault = pick(r, "missing", "garbage", "empty")
				switch fault {
				case "missing":
					os.Remove(tempFile[sid])
				case "garbage":
					must(os.WriteFile(tempFile[sid], []byte("4x\n"), 0644))
				case "empty":
					must(os.WriteFile(tempFile[sid], []byte(""), 0644))
				}
			} else {
				switch trend {
				case 1:
					reading[sid] += r.Intn(3000)
				case -1:
					reading[sid] -= r.Intn(3000)
				default:
					reading[sid] += r.Intn(4001) - 2000
				}
				if r.Intn(15) == 0 {
					reading[sid] = r.Intn(130000) - 20000
				}
				xs = strconv.Itoa(reading[sid])
				must(os.WriteFile(tempFile[sid], []byte(xs+"\n"), 0644))
			}
			errp := internal.VerifUpdateSensor(s)
			ev := Ev{"ev": "Poll", "s": sid, "fault": fault, "err": errp != nil, "am": am(sid), "xlo": 0, "xhi": 0, "api": apiView()}
			if fault == "" {
				ev["xlo"], ev["xhi"] = reading[sid]*1000, reading[sid]*1000
			}
			rec.Emit(ev)
		} else {
			f := fs[r.Intn(len(fs))]
			cerr := ctlOf[f.id].UpdateFanSpeed()
			rec.Emit(Ev{"ev": "Cyc", "f": f.id, "err": cerr != nil, "vals": curVals(), "pwms": pwms(), "api": apiView()})
		}
	}
}
